#!/bin/bash
# usage: try_seed.sh <seed name under /verif/seeded> <ID> [more check args]  -- run a check against a kept seed in a throw-away worktree (does not touch /repo's working tree)
set -u
name="$1"; id="$2"; shift 2
wt=/tmp/seedwt_${name}_$$
git -C /repo worktree add -q --detach "$wt" HEAD || exit 2
git -C "$wt" apply /verif/seeded/$name/patch.diff || { echo "patch does not apply"; git -C /repo worktree remove --force "$wt"; exit 2; }
/verif/tools/try_wt.sh "$wt" "$id" "$@"
rc=$?
git -C /repo worktree remove --force "$wt"; git -C /repo worktree prune
exit $rc
