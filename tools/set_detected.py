#!/usr/bin/env python3
"""usage: set_detected.py <seed name> "<detected_by text>" ["<first attempt note>"]  -- records which check reports a kept seed"""
import json, sys
name, text = sys.argv[1], sys.argv[2]
p = f"/verif/seeded/{name}/meta.json"
m = json.load(open(p))
m["detected_by"] = text
if len(sys.argv) > 3:
    m["first_attempt"] = sys.argv[3]
json.dump(m, open(p, "w"), indent=1)
