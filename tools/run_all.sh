#!/bin/bash
# usage: run_all.sh [tier] [seeds...]   -- runs every registered check, prints one line per (id, seed)
cd "$(dirname "$0")/.."
tier="${1:-quick}"; shift
seeds="${*:-0}"
ids=$(python3 -c "import json;print(' '.join(c['property_id'] for c in json.load(open('MANIFEST.json'))['checks']))")
rc_all=0
for seed in $seeds; do
  for id in $ids; do
    out=$(VERIF_SEED=$seed ./check $id --tier $tier 2>&1 | grep -v conda)
    rc=$?
    line=$(echo "$out" | grep -E "^$id tier" | tail -1)
    nv=$(echo "$out" | grep -c "^VIOLATION")
    he=$(echo "$out" | grep -c "^HARNESS-ERROR")
    echo "seed=$seed $line viol_lines=$nv harness_err=$he"
    [ "$nv" != "0" ] || [ "$he" != "0" ] && rc_all=1
  done
done
exit $rc_all
