#!/bin/bash
# usage: confirm_seed.sh <worktree> <PID> <name> "<needs>"   -- confirm a sub-agent's seeded change myself, keep it under /verif/seeded/<name>, remove the worktree
set -u
wt="$1"; pid="$2"; name="$3"; needs="${4:-}"
out=/verif/seeded/$name
cd "$wt" || exit 2
export PYTHONPATH=$wt/src PYTHONDONTWRITEBYTECODE=1
# make sure the change is applied in the worktree and equals patch.diff
git checkout -q -- . ; git apply out/patch.diff || { echo "patch.diff does not apply to HEAD"; exit 2; }
files=$(git diff --name-only | tr '\n' ' ')
echo "changed files: $files"
case "$files" in *tests/*) echo "touches tests"; exit 2;; esac
for attempt in 1 2 3; do
  t=$(/venv/bin/python -m pytest -q -p no:cacheprovider -o addopts="" tests 2>&1 | tail -1)
  echo "suite with change: $t"
  # tests/test_optimize/test_optimizer.py::ComplexSketchTests::test_optimize is flaky (~3 %) on the unmodified library too
  case "$t" in *"1 failed, 1010 passed"*) break;; esac
done
/venv/bin/python out/demo.py > /dev/shm/demo_with.txt 2>&1; rc_with=$?
git apply -R out/patch.diff
/venv/bin/python out/demo.py > /dev/shm/demo_without.txt 2>&1; rc_without=$?
echo "demo with change: exit $rc_with ($(tail -1 /dev/shm/demo_with.txt | cut -c1-150))"
echo "demo without:     exit $rc_without ($(tail -1 /dev/shm/demo_without.txt | cut -c1-150))"
ok=1
case "$t" in *"1 failed, 1010 passed"*) ;; *) ok=0;; esac
[ $rc_with -ne 0 ] && [ $rc_without -eq 0 ] || ok=0
if [ $ok -eq 1 ]; then
  mkdir -p $out; cp out/patch.diff out/demo.py $out/; [ -f out/notes.md ] && cp out/notes.md $out/
  python3 - "$out" "$pid" "$needs" "$t" "$rc_with" "$rc_without" "$(git -C /repo rev-parse --short HEAD)" <<'P'
import json,sys
out,pid,needs,t,rw,rwo,head=sys.argv[1:]
json.dump({"property":pid,"breaks":pid,"needs_to_manifest":needs,"base_commit":head,
 "confirmed":{"suite_with_change":t.strip(),"demo_exit_with_change":int(rw),"demo_exit_without":int(rwo),
 "commands":["git apply out/patch.diff (scratch worktree)","PYTHONPATH=<wt>/src /venv/bin/python -m pytest -q -p no:cacheprovider -o addopts=\"\" tests","PYTHONPATH=<wt>/src /venv/bin/python out/demo.py (with / without the change)"]},
 "detected_by":None}, open(out+"/meta.json","w"), indent=1)
P
  echo "KEPT -> $out"
else
  echo "NOT CONFIRMED"
fi
cd /; git -C /repo worktree remove --force "$wt"; git -C /repo worktree prune
rm -f /dev/shm/demo_with.txt /dev/shm/demo_without.txt
