#!/bin/bash
# usage: try_patch.sh <patch> <ID> [tier]  -- applies a seeded change to /repo, runs the check, undoes it
set -u
patch="$1"; id="$2"; tier="${3:-quick}"
cd /repo || exit 2
if [ -n "$(git status --porcelain --untracked-files=no)" ]; then echo "repo not clean"; exit 2; fi
git apply "$patch" || { echo "patch does not apply"; exit 2; }
cd /verif
cp -f evidence/$id.json /dev/shm/.ev_$id.json 2>/dev/null
./check "$id" --tier "$tier" 2>&1 | grep -v "conda" | grep -E "^(VIOLATION|KNOWN|HARNESS|C[0-9]+ tier)|clause=" | head -${LINES_MAX:-12}
rc=${PIPESTATUS[0]}
cp -f /dev/shm/.ev_$id.json evidence/$id.json 2>/dev/null
git -C /repo checkout -- . ; git -C /repo status --porcelain --untracked-files=no
echo "exit=$rc"
