#!/usr/bin/env python3
"""Print the 'measured cost' table of DESIGN.md section 12 from run_all.sh outputs.

usage: cost_table.py <quick run_all output> <thorough run_all output>
Only seed=0 lines are used.
"""
import re
import sys


def parse(path):
    out = {}
    for line in open(path):
        m = re.match(r"seed=0 (C\d\d) tier=(\w+) ", line)
        if not m:
            continue
        kv = dict(re.findall(r"(\w+)=(\S+)", line))
        out[m.group(1)] = kv
    return out


def cell(kv):
    if not kv:
        return "-"
    cases = kv["cases"].split("/")[0]
    return f"{int(cases):,} / {int(kv['execs']):,} / {int(kv['states']):,} / {kv['wall']}".replace(",", " ")


def main():
    q = parse(sys.argv[1])
    t = parse(sys.argv[2])
    print("| id | quick: cases / executions / states / wall | thorough: cases / executions / states / wall | exhaustive (quick, thorough) |")
    print("|---|---|---|---|")
    for pid in sorted(set(q) | set(t)):
        ex = f"{q.get(pid, {}).get('exhaustive', '-')}, {t.get(pid, {}).get('exhaustive', '-')}"
        print(f"| {pid} | {cell(q.get(pid))} | {cell(t.get(pid))} | {ex} |")
    tot = lambda d: sum(float(kv["wall"].rstrip("s")) for kv in d.values())
    print(f"\nquick total {tot(q):.0f} s, thorough total {tot(t):.0f} s")


if __name__ == "__main__":
    main()
