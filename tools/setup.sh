#!/bin/bash
# offline setup: nothing to build (pure Python, /repo is installed editable in /venv);
# run the engine self-test so a broken environment fails here and not inside a check
set -e
cd "$(dirname "$0")/.."
export PYTHONHASHSEED=0 PYTHONDONTWRITEBYTECODE=1
/venv/bin/python -m mc.selftest
