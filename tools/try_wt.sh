#!/bin/bash
# usage: try_wt.sh <worktree with the seeded change applied> <ID> [tier]  -- runs a check against that worktree's src (does not touch /repo)
wt="$1"; id="$2"; tier="${3:-quick}"
cd /verif
PYTHONPATH=$wt/src /venv/bin/python -c "import classy_blocks,sys; assert classy_blocks.__file__.startswith('$wt'), classy_blocks.__file__" || exit 2
VERIF_EVIDENCE_DIR=/dev/shm/verif_trial_evidence PYTHONPATH=$wt/src ./check "$id" --tier "$tier" 2>&1 | grep -v conda | grep -E "^(VIOLATION|HARNESS|C[0-9]+ tier)|clause=" | head -${LINES_MAX:-8}
