#!/venv/bin/python
"""Differential run of the library's own examples: baseline snapshot vs the current /repo HEAD.
usage: examples_diff.py [<baseline rev>]   (scratch worktrees under /dev/shm, removed afterwards)
Every example is run in both trees; the written blockMeshDict files are parsed by the independent reader and compared
section by section.  A difference is not a verdict - it has to be explained by one of the repairs (DESIGN.md 11.4)."""
import glob, json, os, re, shutil, subprocess, sys
sys.path.insert(0, "/verif")
from mc import foamdict

base = sys.argv[1] if len(sys.argv) > 1 else "6d7149d"
ROOT = "/dev/shm/exdiff"
shutil.rmtree(ROOT, ignore_errors=True)
os.makedirs(ROOT)
trees = {}
for tag, rev in (("base", base), ("head", "HEAD")):
    wt = f"{ROOT}/{tag}"
    subprocess.run(["git", "-C", "/repo", "worktree", "add", "-q", "--detach", wt, rev], check=True)
    trees[tag] = wt
scripts = sorted(p[len(trees["head"]) + 1 :] for p in glob.glob(trees["head"] + "/examples/**/*.py", recursive=True))
results = {}
only = os.environ.get("EXDIFF_ONLY")
for rel in scripts:
    if only and only not in rel:
        continue
    if os.path.basename(rel) in ("__init__.py", "parameters.py", "geometry.py", "tooth.py", "involute_gear.py", "region.py") or "/regions/" in rel:
        continue
    row = {}
    for tag, wt in trees.items():
        if not os.path.exists(f"{wt}/{rel}"):
            row[tag] = ("absent", None)
            continue
        cwd = os.path.dirname(f"{wt}/{rel}")
        # examples write to ../case/system/blockMeshDict (some ../../case/...) relative to their directory
        for up in ("..", "../.."):
            os.makedirs(os.path.join(cwd, up, "case", "system"), exist_ok=True)
        for f in glob.glob(f"{wt}/examples/**/blockMeshDict", recursive=True):
            os.remove(f)
        env = dict(os.environ, PYTHONPATH=f"{wt}/src:{wt}/examples", PYTHONHASHSEED="0", MPLBACKEND="Agg")
        try:
            r = subprocess.run(["/venv/bin/python", os.path.basename(rel)], cwd=cwd, env=env, capture_output=True, text=True, timeout=900)
        except subprocess.TimeoutExpired:
            row[tag] = ("timeout", None)
            continue
        files = glob.glob(f"{wt}/examples/**/blockMeshDict", recursive=True)
        if r.returncode != 0:
            row[tag] = ("raised", (r.stderr.strip().splitlines() or ["?"])[-1][:200])
        elif not files:
            row[tag] = ("no-file", None)
        else:
            row[tag] = ("ok", open(files[0]).read())
    results[rel] = row
summary = {}
for rel, row in results.items():
    b, h = row["base"], row["head"]
    if b[0] != "ok" or h[0] != "ok":
        summary[rel] = f"base: {b[0]} {b[1] if b[0] != 'ok' and b[1] else ''} | head: {h[0]} {h[1] if h[0] != 'ok' and h[1] else ''}"
        continue
    def canon(t):
        names = {}
        return re.sub(r"sphere_\d+", lambda m: names.setdefault(m.group(0), f"sphere_{len(names)}"), t)

    if canon(b[1]) == canon(h[1]):
        summary[rel] = "identical"
        continue
    try:
        db, dh = foamdict.parse(canon(b[1])), foamdict.parse(canon(h[1]))
    except Exception as err:
        summary[rel] = f"differs (unparsable: {err})"
        continue
    def canon_edges(d):
        """edges as geometry: unordered vertex pair, point lists in the order of the lower vertex first"""
        out = {}
        for e in d["edges"]:
            a, b = e["v"]
            item = {k: v for k, v in e.items() if k != "v"}
            if a > b and "points" in item:
                item["points"] = item["points"][::-1]
            for key in ("points",):
                if key in item:
                    item[key] = [tuple(round(x, 6) for x in pt) for pt in item[key]]
            if "point" in item:
                item["point"] = tuple(round(x, 6) for x in item["point"])
            out[(min(a, b), max(a, b))] = item
        return out

    if db.get("vertices") == dh.get("vertices"):
        eb, eh = canon_edges(db), canon_edges(dh)
        db["edges"], dh["edges"] = sorted(eb.items()), sorted(eh.items())
    def round_blocks(d):
        for b in d["blocks"]:
            b["grading"] = [[tuple(float(f"{x:.9g}") for x in sec) for sec in item] for item in b["grading"]]

    round_blocks(db)
    round_blocks(dh)
    diff = []
    for sec in ("vertices", "blocks", "edges", "faces", "boundary", "geometry", "mergePatchPairs", "defaultPatch"):
        if db.get(sec) != dh.get(sec):
            n = ""
            if isinstance(db.get(sec), list) and isinstance(dh.get(sec), list):
                n = f"[{len(db[sec])}->{len(dh[sec])}, {sum(1 for x, y in zip(db[sec], dh[sec]) if x != y)} entries differ]"
            diff.append(sec + n)
            if only and isinstance(db.get(sec), list):
                ex = [(x, y) for x, y in zip(db[sec], dh[sec]) if x != y][:1]
                print("first difference in", sec, ":", ex)
            if sec == "edges" and isinstance(db[sec], list) and db[sec] and isinstance(db[sec][0], tuple):
                ex = [(x, y) for x, y in zip(db[sec], dh[sec]) if x != y][:1]
                if ex:
                    diff.append(f" e.g. base {str(ex[0][0])[:150]} | head {str(ex[0][1])[:150]}")
    summary[rel] = "differs: " + ", ".join(diff) if diff else "identical after parsing (number formatting only)"
for rel, s in summary.items():
    print(f"{rel:50s} {s}")
json.dump(summary, open("/dev/shm/examples_diff.json", "w"), indent=1)
for wt in trees.values():
    subprocess.run(["git", "-C", "/repo", "worktree", "remove", "--force", wt])
subprocess.run(["git", "-C", "/repo", "worktree", "prune"])
shutil.rmtree(ROOT, ignore_errors=True)
