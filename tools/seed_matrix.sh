#!/bin/bash
# usage: seed_matrix.sh [out file]  -- re-runs, for every kept seed, the first check named in its meta.json "detected_by"
# against a throw-away worktree with the seed applied; prints DETECTED / MISSED per seed. Rewrites evidence files: finish
# with tools/run_all.sh on the clean tree.
out="${1:-/dev/shm/seed_matrix.txt}"; : > "$out"
for d in /verif/seeded/*/; do
  n=$(basename "$d")
  if grep -q obsolete_since "$d/meta.json"; then echo "$n OBSOLETE (the library was repaired so that the change no longer breaks the property)" | tee -a "$out"; continue; fi
  id=$(python3 -c "import json,re,sys; m=json.load(open('$d/meta.json')); print(re.search(r'check (C\d\d)', m.get('detected_by') or '').group(1))" 2>/dev/null) || { echo "$n NO-CHECK-NAMED" | tee -a "$out"; continue; }
  res=$(/verif/tools/try_seed.sh "$n" "$id" 2>&1)
  if echo "$res" | grep -q "^VIOLATION property=$id"; then echo "$n $id DETECTED $(echo "$res" | grep -m1 -o 'clause=[^ ]*')" | tee -a "$out"
  elif echo "$res" | grep -q "HARNESS"; then echo "$n $id HARNESS-ERROR" | tee -a "$out"
  else echo "$n $id MISSED" | tee -a "$out"; fi
done
