#!/bin/bash
# usage: wave_step.sh <ID> <tag> "<needs>"  -- confirm the seed of /tmp/mut_<ID>_<tag>, keep it as /verif/seeded/<ID>_<tag>, run the property's own quick check against it
id="$1"; tag="$2"; needs="$3"
log=/dev/shm/wave_${id}_${tag}.log
/verif/tools/confirm_seed.sh /tmp/mut_${id}_${tag} $id ${id}_${tag} "$needs" > $log 2>&1
if grep -q "^KEPT" $log; then
  LINES_MAX=6 /verif/tools/try_seed.sh ${id}_${tag} $id >> $log 2>&1
fi
echo "== $id done" >> $log
