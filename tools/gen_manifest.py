#!/usr/bin/env python3
"""Regenerates MANIFEST.json from the table below (keeps it valid by construction)."""
import json
import os
import subprocess

ROOT = os.path.dirname(os.path.dirname(os.path.abspath(__file__)))

CHECKS = {
    # id: (category, technique, text, note, design_ref)
    "C01": (
        "model_checking",
        "exhaustive enumeration of a finite configuration space executed on the real library: sub-assemblies of lattice cells x 24 corner numberings x chop placements {none,2,3}^(3k), edge-family union-find reference model, independent reader of the written dictionary",
        "All 1/2-cell assemblies of a 2x2x2 lattice with every chop placement and numbering (quick: 5 numberings in full, all 24 on 2-chop placements), 3-cell assemblies of 3x2x1 and 2x2x2 lattices (thorough: + 4 cells) with bounded placement weight: success => shared edges carry one count in the written file and each direction its family count; conflict => InconsistentGradingsError; consistent => no error.",
        "Trusted: foamdict reader, blockMesh hex edge convention (mc/blockmesh_ref.py), union-find family model. Unit-cube cells, <=4 blocks, insertion order = cell order.",
        "DESIGN.md 5 C01",
    ),
    "C03": (
        "exploration",
        "exhaustive enumeration of a finite numeric lattice (all 10 parameter pairs x lengths x value grids united with two-sided neighbourhoods of every branch constant), three-valued geometric-progression reference model",
        "Every lattice point is evaluated with Chop.calculate on the real library, its inversion and 1-3 section gradings; accepted results must reproduce the given parameters under blockMesh's progression (never coarser than requested, not more cells than needed), realisable sets must be accepted, unrealisable ones rejected.",
        "Says nothing off the lattice. Tolerances from the library's TOL=1e-7 and scipy brentq's xtol. Reference model mc/props/c03.py.",
        "DESIGN.md 5 C03",
    ),
    "C04": (
        "model_checking",
        "exhaustive enumeration of a finite configuration space on the real library: 2-3 block assemblies with unequal edge lengths x chop kind x preserve mode x single/multi-section x 24 corner numberings per neighbouring block; the written dictionary alone is decoded with an independent blockMesh progression model",
        "For every configuration the file is parsed, every block's simple/edgeGrading is decoded onto its 12 edges (lengths from written vertices / three-point arcs), and the physical cell-size sequence of each geometric edge must be the same from every block; a preserved first/last cell size must be realised on every edge of the family at the geometrically same end (and equal the user's value when given).",
        "Trusted: foamdict reader, blockMesh progression/multi-grading model and arc-length computation in mc/blockmesh_ref.py, family model. <=3 blocks per chain; edge kinds line/arc.",
        "DESIGN.md 5 C04",
    ),
    "C05": (
        "model_checking",
        "explicit-state search over Mesh.add histories (all insertion orders, canonical key = vertex partition) x interface states (none/named/merged either way) x near-coincidence displacements, executed on the real library; dict reference model (position cluster, slave-patch set) -> vertex",
        "For every assembly of 2-4 boxes (pair, row, L, diagonal, tower, 2x2 square with crossing merged interfaces), every assignment of interface states and both orders of merge_patches calls, all n! insertion orders are assembled: corners share a vertex iff same position cluster and same slave set (slave vs master side never share), numbering dense and equal to file order, partition identical over orders.",
        "Trusted: reference model in mc/props/c05.py, foamdict reader. Box corners only; displacements 0.4 TOL / 3 TOL.",
        "DESIGN.md 5 C05",
    ),
    "C10": (
        "model_checking",
        "explicit-state BFS over Face re-indexing histories (invert/shift/reorient) to the fixed point of the reachable state set with invariants on every transition, plus exhaustive side/edge/corner addressing tables checked in the written dictionary against blockMesh's hex convention",
        "Part A: all reachable (point order, edge order) states of three general quads under the full operation alphabet, every transition checked (same points, every edge datum between its two points, reorient puts the nearest point first, invert flips the normal). Part B: 6 sides + all side pairs (set_patch), 6 sides x flags (project_side), all 56 ordered corner pairs (project_edge: 24 valid, 32 invalid must raise), 8 corners, 4 side edges, get_face, get_patches_at_corner, in 2-8 frames.",
        "Trusted: corner/side tables of mc/blockmesh_ref.py, foamdict reader.",
        "DESIGN.md 5 C10",
    ),
    "C07": (
        "model_checking",
        "exhaustive enumeration: edge kind x 12 edge slots x short face-reindexing history after attachment x duplicate definition (same/opposite direction, both insertion orders) x frames, executed by assemble+write; edges section read back and compared with an independent circle/polyline model of the curve the user described",
        "Each user-defined non-straight edge must appear exactly once, on a block edge, with kind/data as given; spline/polyLine point order and angle-arc sense must agree with the order of the two vertices in the entry; Edge.length used for grading equals the described curve's length; line / zero-length / collinear-arc edges are absent.",
        "Trusted: circle model and polyline length in mc/props/c07.py + mc/blockmesh_ref.py; convention that face edge i runs from point i to i+1.",
        "DESIGN.md 5 C07",
    ),
    "C12": (
        "model_checking",
        "explicit-state breadth-first search over call histories of one live Mesh (write/assemble/clear/backport/delete/move/modify_patch/set_default_patch/merge_patches) with replay on fresh real objects, de-duplication by a canonical key of the complete library state, differential oracle against a freshly built mesh of the declaration model's normal form at every write transition",
        "All enabled histories up to depth 4 (thorough 6) on a 2-box and a 3-box model (outer patches, an interface patch pair that can be merged, one shared and one private vertex to move); the file written by the history must equal (parsed, order of patches aside) the file written by a fresh mesh built from the declaration model: clear+assemble and idle backport are no-ops, backport after moves updates exactly the owners of the moved vertices also when operations are deleted, modify/default/merge survive, second write identical.",
        "Trusted: declaration model in mc/props/c12.py (incl. which operation corners own a vertex under merged patches), foamdict reader. delete only while un-assembled, moves only while assembled.",
        "DESIGN.md 5 C12",
    ),
    "C08": (
        "exploration",
        "exhaustive enumeration of a finite numeric lattice (circle frames x centres x radii x signed sector angles incl. both sides of pi x middle-point fractions) on the real edge classes, analytic circle as reference; chord bound over every edge kind",
        "Angle-and-axis arcs: middle point on the described circle, half-way on the side the sense prescribes, length R|theta|; origin arcs likewise for angles in (0,pi); three-point arcs: length R x included angle on the side of the given point for every fraction 0.05..0.95; every edge kind's length >= chord.",
        "Says nothing off the lattice. Reference: rotation formula in mc/props/c08.py.",
        "DESIGN.md 5 C08",
    ),
    "C14": (
        "exploration",
        "exhaustive enumeration of a finite table: hexahedra/quadrilaterals x all 24 (4) rotational renumberings x 8 rigid frames x 4 scale factors x with/without face neighbour, metamorphic relations between evaluations of the real quality function; stretch family x 3 directions",
        "Quality must be equal under renumbering and rigid motion (rel 1e-6), under scaling (rel 1e-3 + 1e-3), non-decreasing and direction-independent for a cube stretched along one direction.",
        "Relations between executions, no hand-written expected values. Shapes from a fixed table; lattice only.",
        "DESIGN.md 5 C14",
    ),
    "C09": (
        "model_checking",
        "bounded exhaustive enumeration of programs: every transformable entity type (carrying every edge kind) x all sequences of <=2 (thorough 3) transformations from a 7-element alphabet in method and list form, executed on the real library; differential oracle G(T(e)) = M_T G(e) on unlabelled output geometry (assembled vertices, written arc points, spline points, wire lengths); copy() equivalence/independence; purity of helpers",
        "28 entity types (Point, Face with Arc/Spline/PolyLine/Origin/Angle edges, 5 curve kinds, Loft/Extrude/Revolve/Wedge/OnCurve loft/Box, Grid/OneCore/FourCore sketches, ExtrudedShape, Cylinder, Frustum, Elbow, Extruded/RevolvedRing, Hemisphere, Extruded/RevolvedStack, TJoint) x translate / rotate / scale / mirror with non-zero origins, non-unit axes and default origins.",
        "Trusted: affine composition and unlabelled matcher in mc/props/c09.py, circle model for Angle edges. Shear not covered (not in the property).",
        "DESIGN.md 5 C09",
    ),
    "C11": (
        "model_checking",
        "exhaustive enumeration of a finite configuration space executed on the real library: every predefined shape / sketch-lofted shape / stack / joint class x rigid frames x sizes, and all chains of <=2 (thorough 3) chain/expand/contract/fill steps from either face; structural oracle on the assembled blocking written from blockMesh's hex convention",
        "Per configuration: all corner Jacobians positive, no geometrically coincident distinct vertices, one face-connected component, no quad shared by three blocks, outer arcs on the intended circle, the documented chop calls (axial/radial/tangential or chop(0..2)) sufficient for write(), chained shapes share exactly the interface sketch's vertices.",
        "Trusted: right-handedness test and face table in mc/blockmesh_ref.py. Canonical poses are valid input by construction; Box/Wedge/stacks only in their native frame.",
        "DESIGN.md 5 C11",
    ),
    "C16": (
        "exploration",
        "exhaustive enumeration over a finite table: curve kinds (discrete, linear/spline interpolated with and without equalisation, analytic helix, line, circle) x unevenly spaced point sets x frames x all ordered parameter pairs/triples of a lattice x query points; relations between evaluations of the real curve classes and a dense sampling; OnCurve edges read back from the written dictionary",
        "discretize(a,b) ends at get_point(a/b); interpolated curves pass through their points at the interpolator's parameters; get_length symmetric, additive (at any split for linear, at defining points for spline curves, rel 1e-3 for analytic ones) and equal to the exact sub-polyline for linear curves; get_closest_param no farther than the best of 2001 samples; OnCurve edge points on the curve, between the vertex parameters, Edge.length = curve length.",
        "Lattice of parameters/queries; dense sampling is the reference for closeness.",
        "DESIGN.md 5 C16",
    ),
    "C17": (
        "exploration",
        "exhaustive enumeration of a finite lattice on the real clamp and link classes: 6 clamp types and 3 link types x frames with non-unit directions and non-zero origins x creation offsets x parameter grids x leader moves; independent closest-point formulas / dense sampling as reference",
        "Fresh clamps report the creation point or its closest point on the constraint; for every parameter value the position lies on the declared line / plane / circle (same radius and height, parameter = arc length) / curve / surface; followers satisfy the translation / rotation / mirror relation after every leader move; creating and updating a link leaves the leader array bit-identical.",
        "Lattice only. Positions compared to 1e-5 (scipy minimisation tolerance).",
        "DESIGN.md 5 C17",
    ),
    "C18": (
        "exploration",
        "exhaustive enumeration of finite query tables on the real finders (spheres with radii between consecutive vertex distances, default radius at 0 / 0.4 TOL / 3 TOL, planes through vertex triples displaced likewise, core/shell x start/end of round shapes) against brute-force search; re-orientation of 6 convex hexahedra from all 48 corner numberings x 5 viewpoint/ceiling pairs",
        "Finder result == brute-force set, both directions; re-oriented block has the same 8 points, one and the same numbering for all 48 inputs, is right-handed, its front side faces the observer and its top side the ceiling more than any other side.",
        "Query tables, not the continuum. Observers lie in front of a side (not on a body diagonal), as the docstring requires.",
        "DESIGN.md 5 C18",
    ),
    "C19": (
        "exploration",
        "exhaustive enumeration of a finite configuration space: extruded / revolved / transformed stacks on n x m grids (1..4, thorough 1..5) with 1..4 tiers and every index triple and slice; round shapes and disk sketches in frames; every addressed operation deleted in turn and the written file read back",
        "grid[k][j][i] must be the operation whose corners are those of cell (column i, row j, tier k) computed from the construction parameters; get_slice(axis, idx) exactly the cells with that index, each once; core and shell partition the operations and shell membership equals touching the outer surface; deleting an addressed operation removes exactly that block from the file.",
        "Independent cell geometry computed in mc/props/c19.py.",
        "DESIGN.md 5 C19",
    ),
    "C20": (
        "exploration",
        "exhaustive execution of a finite catalogue of documented preconditions with arguments inside, on and outside each boundary on both sides (three-valued: in / out / may), on the real constructors and mutators",
        "~230 (row, argument) pairs over points/edges counts, corner/axis/side indexes, projection label counts, section length ratios, inner vs outer radius, radius-vector lean in both directions for five shape classes in two frames, chain lengths, contract/fill/chain preconditions, sketch face counts, clamps and links at (non-)vertices, second clamp, life-cycle misuse: outside => raises a library / Value / Lookup / Runtime error, inside => does not raise.",
        "The catalogue is hand-collected (mc/props/c20.py); an undocumented precondition is not in it.",
        "DESIGN.md 5 C20",
    ),
    "C15": (
        "exploration",
        "exhaustive enumeration over a finite table: quad maps (structured, the library's disk/oval maps, an irregular map) and hex assemblies x jitter x frames x up to 16 subsets of interior points fixed by index and by position x iteration counts {1,2,5,50,200}, run on the real smoothers; adjacency reference model derived from the index lists alone",
        "Boundary and fixed points must stay bit-identical; a single free interior point equals its edge-connected neighbours' average after one iteration; after 200 iterations every free point equals that average and a regular boundary yields the regular lattice; smoothed positions are copied back consistently to every face / mesh vertex.",
        "Reference adjacency (boundary = side owned by one cell) in mc/props/c15.py.",
        "DESIGN.md 5 C15",
    ),
    "C13": (
        "exploration",
        "exhaustive enumeration of a finite table of optimisation runs on the real optimizer: grids (2 / 2x2x1 / 2x2x2 boxes, 2x2 / 3x3 mapped sketches) x jitter levels incl. near-degenerate x clamp sets of every clamp type x link types x 4 minimisation methods x 1..3 iterations x frames, with every optimize_clamp call wrapped to snapshot the point array",
        "Summed quality never rises (overall and per optimize_clamp call); a call that does not improve leaves the point array exactly as before (rollback, nothing half-applied); vertices without clamp/link are bit-identical; clamped vertices lie on their manifold within bounds; followers keep the link relation; mesh vertices / sketch points equal the optimizer's final positions.",
        "The smallest alphabet of all properties (each run costs 0.1-4 s); scipy's minimisers are opaque; set iteration order fixed to insertion order.",
        "DESIGN.md 5 C13",
    ),
    "C06": (
        "model_checking",
        "bounded exhaustive enumeration of programs over the public API (4 base models x every set of <=2, thinned 3, decoration statements from a 60-statement alphabet, both orders where statements touch the same target, then write with a debug VTK), executed on the real library and on a plain-Python declaration model; the written text is read back with an independent blockMeshDict reader",
        "The file must parse; vertices dense and numbered in list order; one hex per non-deleted operation with its 8 corners in the operation's own order, its cell zone and counts; boundary = exactly the declared patch names with type, settings and side quads; defaultPatch, mergePatchPairs, settings, faces, projected edges and geometry exactly as declared; every index valid; every patch / projected quad a side of a block, every edge entry a block edge; built-in geometry (sphere) defined; VTK points and cells equal the dictionary's.",
        "Trusted: mc/foamdict.py, side/edge tables of mc/blockmesh_ref.py, the declaration model in mc/props/c06.py. String payloads opaque.",
        "DESIGN.md 5 C06",
    ),
    "C02": (
        "model_checking",
        "stateless model checking of the implementation: choice-point explorer over set iteration orders (iterative deviation bounding) x exhaustive insertion orders / corner numberings / chop placements of small lattice assemblies, edge-family reference model",
        "Every sub-assembly (<=3 cells of a 2x2x2 lattice + 4-cell specials; thorough: <=4 cells of 2x3x2) x every chop placement within 1 (thorough 2) deviations of the family model's default x all insertion orders / all 24 numberings per block, each under all iteration orders of the neighbour sets (exhaustive below the per-script cap). Termination (progress horizon), completeness vs. the edge-family model, one outcome per script over all schedules, renumbering-invariant content equal over orders/numberings.",
        "Trusted: mc/foamdict.py reader, mc/blockmesh_ref.py conventions, the edge-family union-find model; lattice cells are unit cubes; <=4 blocks.",
        "DESIGN.md 5 C02",
    ),
}

# additions of later rounds (appended to the coverage text)
ADDED = {
    "C01": " A cell-size chop variant is written, the assembled mesh stretched x2 and written again; the second write is judged by the same model with the new count. Seventh wave: a direction chopped in two sections with identical arguments; blocks of very different sizes (non-uniform lattice spacing). Eighth wave: chops that arrive through a chop - unchop - chop history on every axis.",
    "C02": " Plus assemblies with a curved shared edge declared by one block only and a chop by cell size along it (count from the mean edge length), all insertion orders and numberings. Eighth wave: a family's chop given as two sections with identical arguments.",
    "C04": " Plus write - stretch - write histories compared with a fresh mesh (also with the first and last block of a row of three chopped), arcs declared by one block only, uniform multi-section chops, a given total expansion is the one written, and one graded tangential chop on every library shape.",
    "C06": " Plus a geometry name declared twice (the later declaration counts) and sphere shapes moved between two writes (built-in geometry compared with the shape moved before its first write). Seventh wave: two touching boxes across x / y / z in both add orders with every set of <= 3 projected sides (the shared quad projected from either side or both). Eighth wave: a moved copy of a sphere shape alone in the mesh (everything it projects to must be defined).",
    "C07": " Plus every sequence of <= 2 (thorough 3, thinned) project_edge / project_side(edges=True) calls out of 32 with two labels: each edge is written once as 'project' with exactly the union of its labels. Seventh wave: an OnCurve edge on a curve whose parameter range starts below 0 (parameters of the written points, length for grading).",
    "C09": " copy(): the copy moved after copying, and the original moved after copying (copy evaluated before or not), each compared with the geometry before. Seventh wave: Oval / HalfDisk / WrappedDisk sketches and shapes extruded from Oval, HalfDisk, FourCoreDisk, WrappedDisk, SplineDisk. Eighth wave: both the list and the method form for two-step sequences whose second step has a default origin.",
    "C15": " Maps also at model sizes 1e-4 and 1e3; smoothers that outlive a translation, a moved boundary point, a point fixed by its current position and a deleted block. Seventh wave: mapped sketches put together by MappedSketch.merge() (a list, lists of two, one at a time); the merged map must address the faces' points.",
    "C17": " Surface and curve clamps also in models 1e-3 and 1e3 times the unit size with inexact starting guesses. Seventh wave: parametric-surface clamps whose two parameters have different ranges (descending, nested, disjoint).",
    "C19": " Extruded and lofted (mid sketch) shapes on every sketch: operation [i][j] stands on face [i][j] of the sketch and ends above it. Stacks extruded by a vector or a negative distance; after a deletion the remaining blocks keep their curved edges. Seventh wave: revolved stacks with a negative angle and with an axis off the origin, 1-3 tiers.",
    "C03": " Sizes and ratios that fit the edge with a whole number of cells give exactly that number.",
    "C05": " The side a corner belongs to at a merged interface follows from face connectivity (reference model); pairs declared on the assembled mesh. Seventh wave: chained merges (one patch name per block: the slave patch of one pair is the master patch of the next).",
    "C12": " delete(), add() and merge_patches() on an assembled mesh take effect at once; assemble() may be repeated (also with skip_edges); a few scripted histories of 6-8 events beyond the search depth. Seventh wave: a projected side on every box of the models (several entries in the faces section across clear / backport / delete). Eighth wave: surfaces declared through the mesh (add_geometry); the geometry section is part of the compared content.",
    "C13": " Histories in which the user moves an un-clamped vertex after the optimizer was made; radial clamp bounds checked as arc lengths. Seventh wave: optimize() with its default arguments and with tolerances 0.5 / 1e-3 (the stopping rule), the iteration limit as horizon. Eighth wave: a clamp on a corner of the grid (a point of one cell only) next to other cells.",
    "C18": " The round-shape finder is queried again after its vertices were moved and after an earlier entity was deleted.",
    "C20": " Clamps and links added after a vertex was moved; write() after a refused write(); labels of an edge shared by two operations. Seventh wave: three-face shells, one face apart, in all six orders.",
    "C08": " Seventh wave: origin arcs up to 179.4 degrees.",
    "C10": " Seventh wave: get_closest_side / get_closest_face / get_normal_face from viewers at three distances outside every side, asked twice on one operation. Eighth wave: Loft.from_series with 2-5 faces (side edge i through point i of every face in between).",
    "C11": " Seventh wave: shells whose shared points see three faces with asymmetric normals (two roofs and a wall, either order; all six sides of a box) with the expected vertex count. Eighth wave: pairs of boxes sharing a side, each given by any of its space diagonals, away from the origin (vertex count, position).",
    "C16": " Seventh wave: analytic and circle curves whose parameter range contains 0 in its interior (0 on the grid and as a vertex parameter of OnCurve edges).",
}

NOT_APPLICABLE = {}


def main():
    props = [json.loads(l) for l in open(os.path.join(ROOT, "properties.jsonl"))]
    ids = [p["id"] for p in props]
    checks = []
    for pid in ids:
        if pid not in CHECKS:
            continue
        cat, tech, text, note, ref = CHECKS[pid]
        text += ADDED.get(pid, "")
        checks.append(
            {
                "property_id": pid,
                "quick_cmd": f"./check {pid} --tier quick",
                "thorough_cmd": f"./check {pid} --tier thorough",
                "evidence_file": f"/verif/evidence/{pid}.json",
                "replay_cmd_template": f"./check {pid} --replay {{path}}",
                "engine": "mc",
                "level_claimed": {"category": cat, "text": text, "design_ref": ref},
                "level_note": note,
                "technique": tech,
            }
        )
    na = [{"property_id": pid, "reason": NOT_APPLICABLE.get(pid, "check not built yet in this round (work in progress); see DESIGN.md 13")} for pid in ids if pid not in CHECKS]
    repo_fix = subprocess.run(["git", "-C", "/repo", "log", "--format=%H %s"], capture_output=True, text=True).stdout.splitlines()
    man = {
        "version": 1,
        "setup_cmd": "cd /verif && ./tools/setup.sh",
        "hooks": {
            "guard": "CLASSY_BLOCKS_VERIF",
            "enable": "no source hooks: all instrumentation (ChoiceSet on Axis.neighbours / Wire.coincidents / Junction.cells, progress monitor on Block.copy_grading) is installed from the harness by wrapping attributes of the imported modules (mc/control.py); /repo is installed editable in /venv so checks always execute the current working tree",
            "baseline_off_cmd": "cd /repo && /venv/bin/python -m pytest -ra -q -p no:cacheprovider --timeout=900 --continue-on-collection-errors",
            "source_commits": [],
            "add_only": True,
        },
        "engines": [
            {
                "name": "mc",
                "path": "/verif/mc",
                "serves_properties": [c["property_id"] for c in checks],
                "kind_free_text": "hand-written explicit-state / stateless explorer for Python: deterministic finite case enumerators, CHESS-style choice-point explorer with iterative deviation bounding, history BFS with canonical state keys, independent blockMeshDict reader and boring reference models; 16 forked workers; every explored trace is executed on the real library",
            }
        ],
        "checks": checks,
        "not_applicable": na,
        "notes": "Exit codes: 0 held / 1 VIOLATION / 2 harness error. Known findings: /verif/known_findings.json (read-only at run time). fix: commits in /repo: "
        + "; ".join(l for l in repo_fix if " fix:" in l),
    }
    with open(os.path.join(ROOT, "MANIFEST.json"), "w") as fh:
        json.dump(man, fh, indent=1)
    print(f"MANIFEST.json: {len(checks)} checks, {len(na)} not_applicable")


if __name__ == "__main__":
    main()
