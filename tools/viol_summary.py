#!/usr/bin/env python3
"""debug helper: run one property in-process (serial or pool) and summarise violations by clause and a coords key"""
import sys, json, collections, os
sys.path.insert(0, "/verif")
os.environ.setdefault("PYTHONHASHSEED", "0")
from mc import runner
import multiprocessing as mp
pid, tier = sys.argv[1], (sys.argv[2] if len(sys.argv) > 2 else "quick")
keys = sys.argv[3].split(",") if len(sys.argv) > 3 else []
prop = runner.load_prop(pid)
if hasattr(prop, "worker_init"): prop.worker_init()
runner._PROP = prop
cases = prop.cases(tier, 0)
with mp.get_context("fork").Pool(16, initializer=runner._worker_init, initargs=(pid,)) as pool:
    res = pool.map(runner._worker_run, list(enumerate(cases)), chunksize=max(1, len(cases)//256))
c = collections.Counter(); ex = {}
for i, r in res:
    if "harness_error" in r:
        print(r["harness_error"]); break
    for v in r["violations"]:
        k = (v["clause"],) + tuple(json.dumps(v["coords"].get(x)) for x in keys)
        c[k] += 1; ex.setdefault(k, v)
for k, n in sorted(c.items(), key=lambda t: -t[1]):
    print(n, k); print("    ", json.dumps(ex[k]["coords"], default=str)[:300]); print("    ", str(ex[k]["detail"])[:300])
