#!/usr/bin/env python3
"""prints the prompt handed to a fresh sub-agent that is asked to break one property"""
import json, sys
pid, tag = sys.argv[1], sys.argv[2]
p = [json.loads(l) for l in open('/verif/properties.jsonl') if json.loads(l)['id'] == pid][0]
wt = f"/tmp/mut_{pid}_{tag}"
print(f"""You are helping to evaluate a verification harness for the open-source Python library classy_blocks (it builds OpenFOAM blockMeshDict files from parametric shapes). Your job: produce ONE realistic, subtle, property-breaking change ("seeded bug") to the library.

Set-up (do this first):
  git -C /repo worktree add --detach {wt} HEAD
Work ONLY inside {wt} (a scratch git worktree of the library). Never edit /repo itself, and do NOT read or list anything under /verif (that is the harness under evaluation; your change must be independent of it).
Run python code against your worktree with:   cd {wt} && PYTHONPATH={wt}/src /venv/bin/python your_script.py
Run the library's test suite in the worktree with:   cd {wt} && PYTHONPATH={wt}/src /venv/bin/python -m pytest -q -p no:cacheprovider -o addopts="" tests
(baseline: 1010 passed, exactly 1 failed — tests/test_construct/test_curves/test_interpolated.py::SplineInterpolatedCurveTests::test_length always fails and does not count). Verify with `python -c "import classy_blocks; print(classy_blocks.__file__)"` under that PYTHONPATH that the worktree copy is the one imported.

The property your change must break:
  Title: {p['title']}
  Statement: {p['statement']}
  Holds: {p['quantifier']['text']}
  Code it is anchored in: {', '.join(p['anchors']['files'])}

Requirements for the change:
  1. It modifies only files under {wt}/src/classy_blocks (no test edits), still imports/compiles, and the test suite result is unchanged (1010 passed, the one known failure).
  2. It breaks the property above for at least some inputs, in a way a real developer could plausibly introduce (off-by-one, wrong sign, swapped index, stale cache/shared mutable state, missing case, wrong comparison side, forgotten inversion ...). Not a gross breakage: ordinary, simplest use must still work. It should need something specific to manifest — e.g. a particular orientation/numbering of a block, a multi-step sequence of API calls, an unusual-but-valid input (negative angle, non-zero origin, unequal edge lengths, third block in a chain ...), or two cooperating sites that each look fine alone.
  3. Keep it small (a few lines).
Deliverables, written to {wt}/out/ :
  - patch.diff   : output of `git -C {wt} diff` (the change, relative to HEAD)
  - demo.py      : a small stand-alone program (only imports classy_blocks / numpy / stdlib) that exits 0 and prints PASS on the unmodified library and exits 1 printing FAIL on the modified one, by checking the property on a concrete input. Check it both ways by applying the patch in reverse and forward again (`git diff > out/patch.diff; git apply -R out/patch.diff; ...; git apply out/patch.diff`) — do NOT use `git stash`: the stash is shared between all worktrees of /repo and other agents work concurrently and say what you observed.
  - notes.md     : 5-10 lines: what was changed, why the tests do not notice, what is needed for it to manifest.
Do not remove the worktree when done. In your final answer, report: the path of the out/ directory, a one-paragraph description of the change, and the exact commands you ran to confirm (tests unchanged; demo PASS before / FAIL after).""")
