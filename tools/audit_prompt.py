#!/usr/bin/env python3
"""prints the prompt handed to a fresh sub-agent that is asked to AUDIT the unmodified library against one property"""
import glob, json, sys
pid = sys.argv[1]
p = [json.loads(l) for l in open('/verif/properties.jsonl') if json.loads(l)['id'] == pid][0]
wt = f"/tmp/aud_{pid}"
print(f"""You are auditing the open-source Python library classy_blocks (it builds OpenFOAM blockMeshDict files from parametric shapes) against ONE stated property. Your job: find concrete, valid inputs for which the library AS IT IS violates the property. You do not change the library.

Set-up (do this first):
  git -C /repo worktree add --detach {wt} HEAD
Work ONLY inside {wt} (a scratch git worktree of the library; put your scripts under {wt}/aud/). Never edit /repo itself, and do NOT read or list anything under /verif.
Run python code against the worktree with:   cd {wt} && PYTHONPATH={wt}/src /venv/bin/python your_script.py
(only classy_blocks, numpy, scipy and the standard library are available; no network). Do not use git stash.

The property:
  Title: {p['title']}
  Statement: {p['statement']}
  Holds: {p['quantifier']['text']}
  Code it is anchored in: {', '.join(p['anchors']['files'])}

How to work: read the anchored code with the statement in hand, clause by clause. For every clause write small scripts that check it INDEPENDENTLY of the library's own helpers (own geometry / arithmetic / a tiny parser of the written file) over inputs the unit tests are unlikely to use: non-default optional arguments, negative or reflex angles, non-unit vectors, origins away from (0,0,0), numpy scalar types, re-used objects, repeated calls on the same object, unusual orders of calls, blocks numbered in rotated ways, sizes far from 1, degenerate-but-valid corners of the input space. Prefer breadth: try many small experiments rather than one big one.
Be strict about validity: an input only counts if the statement (including its 'Holds' line) covers it and the documentation does not exclude it; say so if a case is borderline.

Many defects have already been repaired: read `git -C {wt} log --grep '^fix:' --format='%h %s%n%b'` first so that you know what is done and look elsewhere.

Deliverable (your final answer): a numbered list of violations found. For each: (1) a minimal self-contained script (<= 25 lines, inline in the answer) that prints what the library does, (2) what the property requires instead and why the input is valid, (3) the file/function you believe is responsible and, if you see one, a minimal fix (a few lines) - or say why no small fix exists. Then list clauses you tested without finding a violation (one line each, with the input ranges you covered). If you find nothing, say so plainly - do not pad the list with style issues, missing validation of nonsense input, or behaviour outside the statement. Remove nothing; leave the worktree in place.""")
