#!/usr/bin/env python3
"""agent_prompt.py + notes naming the places earlier seeds of the property touched (so the agent picks another idea)"""
import glob, json, re, subprocess, sys
pid, tag = sys.argv[1], sys.argv[2]
extra = sys.argv[3] if len(sys.argv) > 3 else ""
print(subprocess.run([sys.executable, "/verif/tools/agent_prompt.py", pid, tag], capture_output=True, text=True).stdout)
print("Note: other engineers have already seeded this property with changes in the following places, so choose a DIFFERENT idea in a different function (preferably a different file):")
for d in sorted(glob.glob(f"/verif/seeded/{pid}_*")):
    m = json.load(open(d + "/meta.json"))
    files = sorted(set(re.findall(r"^\+\+\+ b/(\S+)", open(d + "/patch.diff").read(), re.M)))
    print(f"  - {', '.join(files)} ({m['needs_to_manifest']})")
print("Note 2: tests/test_optimize/test_optimizer.py::ComplexSketchTests::test_optimize is flaky at a few percent even on the unmodified library (re-run the suite if only that test fails). Other jobs run on this machine, so test runs may be slow.")
print("Note 3: " + (extra or "prefer a defect in code paths the earlier seeds did not touch at all: look for a less common class, an optional argument with a non-default value, an interaction of TWO features of the anchored files (each fine alone), or a branch of the anchored code that only runs for unusual-but-valid input; avoid 'np.asarray instead of np.array' style aliasing and avoid adding a cache - both have been done."))
