"""./check <ID> [--tier quick|thorough] [--replay FILE] [--case JSON]"""

import argparse
import json
import os
import sys


def main(argv=None):
    ap = argparse.ArgumentParser()
    ap.add_argument("pid")
    ap.add_argument("--tier", default=os.environ.get("VERIF_TIER", "quick"), choices=["quick", "thorough"])
    ap.add_argument("--replay")
    ap.add_argument("--case")
    args = ap.parse_args(argv)
    seed = int(os.environ.get("VERIF_SEED", "0") or 0)

    from mc import runner

    pid = args.pid.upper()
    try:
        if args.case or args.replay:
            if args.replay:
                with open(args.replay) as fh:
                    case = json.load(fh)["case"]
            else:
                case = json.loads(args.case)
            res = runner.run_single_case(pid, case)
            sigs = [runner.vsig(v) for v in res["violations"]]
            print("CASE-RESULT " + json.dumps(sigs))
            for v in res["violations"]:
                print(f"  clause={v['clause']} coords={json.dumps(v['coords'], default=str)}")
                print(f"  detail={v.get('detail')}")
            print(f"outcome={res.get('outcome')} execs={res.get('execs')}")
            return 1 if res["violations"] else 0
        return runner.run_property(pid, args.tier, seed)
    except runner.HarnessError as err:
        print(f"HARNESS-ERROR property={pid} {err}")
        return 2
    except Exception as err:  # import errors of a broken tree etc.
        import traceback

        traceback.print_exc()
        print(f"HARNESS-ERROR property={pid} {type(err).__name__}: {err}")
        return 2


if __name__ == "__main__":
    sys.exit(main())
