"""Ownership of the library's scheduling nondeterminism.

The grading fix-point loop iterates identity-hashed Python sets
(Axis.neighbours, Wire.coincidents, Junction.cells): their iteration order is a
function of object addresses and differs between interpreter runs.  ChoiceSet
replaces them (installed from outside by wrapping __init__, no source change) and
lets a Chooser decide the order, lazily and only as far as the consumer iterates.
"""

from __future__ import annotations

import functools
from typing import List


class Chooser:
    """Replays `prefix`, then takes choice 0; records (width, choice) per point."""

    def __init__(self, prefix=()):
        self.prefix = list(prefix)
        self.widths: List[int] = []
        self.choices: List[int] = []

    def choose(self, width: int) -> int:
        i = len(self.choices)
        if i < len(self.prefix):
            c = self.prefix[i]
            if c >= width:
                raise ReplayDivergence(f"choice point {i}: recorded choice {c} but width is {width}")
        else:
            c = 0
        self.widths.append(width)
        self.choices.append(c)
        return c


class ReplayDivergence(BaseException):
    pass


_chooser: Chooser | None = None


def set_chooser(ch: Chooser | None):
    global _chooser
    _chooser = ch


class ChoiceSet(set):
    """A set whose iteration order is one permutation per (unmodified) object,
    chosen lazily by the active Chooser.  Without a chooser: insertion order."""

    def __init__(self, iterable=()):
        super().__init__()
        self._order = []  # insertion order
        self._perm = []  # chosen prefix of the iteration order
        for x in iterable:
            self.add(x)

    def add(self, x):
        if not set.__contains__(self, x):
            set.add(self, x)
            self._order.append(x)
            self._perm = []  # a modified set may re-order

    def remove(self, x):
        set.remove(self, x)
        self._order.remove(x)
        self._perm = []

    def discard(self, x):
        if set.__contains__(self, x):
            self.remove(x)

    def clear(self):
        set.clear(self)
        self._order = []
        self._perm = []

    def update(self, *others):
        for o in others:
            for x in o:
                self.add(x)

    def __iter__(self):
        k = 0
        while k < len(self._order):
            if k >= len(self._perm):
                rest = [x for x in self._order if not any(x is y for y in self._perm)]
                if len(rest) > 1 and _chooser is not None:
                    c = _chooser.choose(len(rest))
                else:
                    c = 0
                self._perm.append(rest[c])
            yield self._perm[k]
            k += 1

    def __reduce__(self):
        return (ChoiceSet, (list(self._order),))

    def __deepcopy__(self, memo):
        import copy

        return ChoiceSet(copy.deepcopy(x, memo) for x in self._order)


_installed = False


def install_choice_sets():
    """Wrap Axis/Wire/Junction constructors so that their identity-hashed sets
    become ChoiceSets.  Defensive: an attribute that is no longer a set is left alone."""
    global _installed
    if _installed:
        return
    _installed = True
    from classy_blocks.items.wires.axis import Axis
    from classy_blocks.items.wires.wire import Wire

    def wrap(cls, attr):
        orig = cls.__init__

        @functools.wraps(orig)
        def init(self, *a, **k):
            orig(self, *a, **k)
            cur = getattr(self, attr, None)
            if type(cur) is set:
                setattr(self, attr, ChoiceSet(cur))

        cls.__init__ = init

    wrap(Axis, "neighbours")
    wrap(Wire, "coincidents")
    try:
        from classy_blocks.optimize.junction import Junction

        wrap(Junction, "cells")
    except Exception:  # pragma: no cover
        pass


# ----------------------------------------------------------------------------
class Livelock(BaseException):
    """Raised by the progress monitor; BaseException so no library handler eats it."""


class ProgressMonitor:
    """Counts Block.copy_grading calls per Mesh.grade(); the fix-point loop of a
    correct implementation needs at most (4n+1)*n calls for n blocks."""

    def __init__(self):
        self.calls = 0
        self.horizon = None

    def reset(self, n_blocks: int):
        self.calls = 0
        self.horizon = (4 * n_blocks + 2) * max(n_blocks, 1) + 8


monitor = ProgressMonitor()
_mon_installed = False


def install_progress_monitor():
    global _mon_installed
    if _mon_installed:
        return
    _mon_installed = True
    from classy_blocks.items.block import Block
    from classy_blocks.lists.block_list import BlockList

    orig_copy = Block.copy_grading

    @functools.wraps(orig_copy)
    def copy_grading(self):
        monitor.calls += 1
        if monitor.horizon is not None and monitor.calls > monitor.horizon:
            raise Livelock(f"{monitor.calls} copy_grading calls")
        return orig_copy(self)

    Block.copy_grading = copy_grading

    orig_prop = BlockList.propagate_gradings

    @functools.wraps(orig_prop)
    def propagate_gradings(self):
        monitor.reset(len(self.blocks))
        try:
            return orig_prop(self)
        finally:
            monitor.horizon = None

    BlockList.propagate_gradings = propagate_gradings


# ----------------------------------------------------------------------------
def explore_schedules(run, max_execs: int, max_bound: int | None = None):
    """CHESS-style iterative deviation bounding over Chooser choice points.

    run(chooser) -> observation (str or JSON-able).  A deviation is a choice != 0.
    Every schedule is identified by its choice sequence up to the last deviation, so
    each is executed exactly once: bucket d holds the prefixes with d deviations and
    is emptied completely before bucket d+1 is touched.
    Returns outcomes {obs_key: first choice sequence}, execs, transitions,
    completed_bound (largest d whose bucket was fully executed), exhaustive.
    """
    import json

    outcomes = {}
    execs = 0
    transitions = 0
    buckets = {0: [[]]}
    bound = 0
    completed_bound = -1
    exhaustive = False
    while True:
        todo = buckets.pop(bound, [])
        capped = False
        while todo:
            if execs >= max_execs:
                capped = True
                break
            prefix = todo.pop()
            ch = Chooser(prefix)
            set_chooser(ch)
            try:
                obs = run(ch)
            finally:
                set_chooser(None)
            execs += 1
            transitions += len(ch.choices)
            okey = obs if isinstance(obs, str) else json.dumps(obs, sort_keys=True, default=str)
            outcomes.setdefault(okey, list(ch.choices))
            nxt = buckets.setdefault(bound + 1, [])
            for i in range(len(prefix), len(ch.choices)):
                for alt in range(1, ch.widths[i]):
                    nxt.append(list(ch.choices[:i]) + [alt])
        if capped:
            break
        completed_bound = bound
        if not buckets.get(bound + 1):
            exhaustive = True
            break
        if max_bound is not None and bound >= max_bound:
            break
        bound += 1
    return {
        "outcomes": outcomes,
        "execs": execs,
        "transitions": transitions,
        "completed_bound": completed_bound,
        "exhaustive": exhaustive,
    }
