"""Shared builder/observer/reference model for the grading properties C01, C02, C04.

A *script* is
   cells      : list of lattice cells (i,j,k)                (block b = cells[b])
   numbering  : list of indices into HEXSYM24, one per block
   chops      : list of [block, global direction g in 0..2, kwargs]  (kwargs describe the chop in the
                *positive global direction*; it is inverted by the harness when the block's local axis
                runs against it, so the physical meaning of the script does not depend on the numbering)
   order      : insertion order (permutation of block indices)
   geometry   : optional {"size": (sx,sy,sz), "jitter": level index, "frame": index}
"""

from __future__ import annotations

import os

import numpy as np

from mc import blockmesh_ref as bm
from mc import control, foamdict, runner
from mc.domains import FRAMES, HEXSYM24, JITTER_LEVELS, frame_apply, jitter_vec, renumber, unit_cell_points

_counter = [0]


def lattice_vertex_id(cell, corner):
    x, y, z = bm.CORNER_XYZ[corner]
    return (cell[0] + x, cell[1] + y, cell[2] + z)


def block_points(script, b):
    """8 points of block b in its own (renumbered) corner order + lattice vertex ids"""
    geo = script.get("geometry") or {}
    size = geo.get("size", (1.0, 1.0, 1.0))
    cell = tuple(script["cells"][b])
    pts = unit_cell_points(cell, size)
    ids = [lattice_vertex_id(cell, c) for c in range(8)]
    spacing = geo.get("spacing")
    if spacing:
        # non-uniform lattice: coordinate k of direction g lies at spacing[g][k] (blocks of very different sizes)
        pts = [tuple(float(spacing[g][vid[g]]) for g in range(3)) for vid in ids]
    lvl = JITTER_LEVELS[geo.get("jitter", 0)]
    if lvl:
        out = []
        for p, vid in zip(pts, ids):
            k = vid[0] * 17 + vid[1] * 5 + vid[2] * 3
            out.append(tuple(np.asarray(p) + lvl * min(size) * jitter_vec(k)))
        pts = out
    taper = geo.get("taper")
    if taper:
        # scale x,y about the lattice origin line as a function of z: conformal (depends on the vertex only)
        pts = [(p[0] * (1 + taper * p[2]), p[1] * (1 + 0.5 * taper * p[2]), p[2]) for p in pts]
    fr = geo.get("frame", 0)
    if fr:
        pts = [tuple(x) for x in frame_apply(FRAMES[fr], pts)]
    perm = HEXSYM24[script["numbering"][b]]
    return renumber(pts, perm), renumber(ids, perm)


def local_axis_of(script, b, g):
    """local axis a of block b whose edges run along global lattice direction g, and the sign"""
    perm = HEXSYM24[script["numbering"][b]]
    for a, end in enumerate((1, 3, 4)):
        c0 = bm.CORNER_XYZ[perm[0]]
        c1 = bm.CORNER_XYZ[perm[end]]
        d = [c1[i] - c0[i] for i in range(3)]
        if d[g] != 0:
            return a, d[g]
    raise AssertionError


def invert_kwargs(kw):
    kw = dict(kw)
    s, e = kw.pop("start_size", None), kw.pop("end_size", None)
    if e is not None:
        kw["start_size"] = e
    if s is not None:
        kw["end_size"] = s
    if "c2c_expansion" in kw:
        kw["c2c_expansion"] = 1.0 / kw["c2c_expansion"]
    if "total_expansion" in kw:
        kw["total_expansion"] = 1.0 / kw["total_expansion"]
    if kw.get("preserve") == "start_size":
        kw["preserve"] = "end_size"
    elif kw.get("preserve") == "end_size":
        kw["preserve"] = "start_size"
    return kw


def build_mesh(script):
    import classy_blocks as cb

    mesh = cb.Mesh()
    ops = {}
    for b in range(len(script["cells"])):
        pts, _ = block_points(script, b)
        op = cb.Loft(cb.Face(pts[:4]), cb.Face(pts[4:]))
        ops[b] = op
    # arcs on lattice edges (C04): list of [lattice vertex a, lattice vertex b, offset vector]
    for arc in (script.get("geometry") or {}).get("arcs", []):
        add_arc(script, ops, arc)
    # chops: multi-section chops of one (block, direction) must be applied in local order
    per = {}
    for blk, g, kw in script["chops"]:
        per.setdefault((blk, g), []).append(kw)
    if script.get("rechop"):
        # the script first chops every direction of every block with other numbers and then replaces them, axis by
        # axis: unchop(axis) followed by the chops that count (or by nothing)
        for op in ops.values():
            for a in range(3):
                op.chop(a, count=7)
        local = {}
        for (blk, g), kws in per.items():
            a, sign = local_axis_of(script, blk, g)
            local[(blk, a)] = [invert_kwargs(k) for k in reversed(kws)] if sign < 0 else kws
        for blk, op in ops.items():
            for a in range(3):
                op.unchop(a)
                for kw in local.get((blk, a), []):
                    op.chop(a, **kw)
        per = {}
    for (blk, g), kws in per.items():
        a, sign = local_axis_of(script, blk, g)
        if sign < 0:
            kws = [invert_kwargs(k) for k in reversed(kws)]
        for kw in kws:
            ops[blk].chop(a, **kw)
    for b in script["order"]:
        mesh.add(ops[b])
    return mesh, ops


def add_arc(script, ops, arc):
    """put an Arc edge on every block edge that joins lattice vertices va, vb (4th entry, optional: "last" = only the
    block with the highest number among those that have the edge declares it, "first" = only the lowest)"""
    import classy_blocks as cb

    va, vb, off = tuple(arc[0]), tuple(arc[1]), np.asarray(arc[2], dtype=float)
    who = arc[3] if len(arc) > 3 else "all"
    owners = [b for b in ops if any({block_points(script, b)[1][c1], block_points(script, b)[1][c2]} == {va, vb} for c1, c2 in bm.EDGES)]
    for b, op in ops.items():
        if who == "last" and b != max(owners) or who == "first" and b != min(owners):
            continue
        pts, ids = block_points(script, b)
        for c1, c2 in bm.EDGES:
            if {ids[c1], ids[c2]} == {va, vb}:
                mid = (np.asarray(pts[c1]) + np.asarray(pts[c2])) / 2 + off
                lo, hi = min(c1, c2), max(c1, c2)
                if hi < 4:
                    # bottom face edge lo->lo+1 or 3->0
                    idx = lo if hi - lo == 1 else 3
                    op.bottom_face.add_edge(idx, cb.Arc(mid))
                elif lo >= 4:
                    idx = lo - 4 if hi - lo == 1 else 3
                    op.top_face.add_edge(idx, cb.Arc(mid))
                else:
                    op.add_side_edge(lo, cb.Arc(mid))


SENTINEL = "SENTINEL: previous contents\n"


def write_and_observe(mesh, n_blocks=None):
    """Mesh.write into a path holding a sentinel; returns (kind, payload):
    ("ok", text) | ("error", exception class name) | ("livelock", None)"""
    _counter[0] += 1
    path = os.path.join(runner.scratch_dir(), f"w{os.getpid()}_{_counter[0] % 8}")
    with open(path, "w") as fh:
        fh.write(SENTINEL)
    try:
        mesh.write(path)
    except control.Livelock:
        kind, payload = "livelock", None
    except control.ReplayDivergence:
        raise
    except Exception as err:
        kind, payload = "error", type(err).__name__
    else:
        with open(path) as fh:
            return "ok", fh.read()
    with open(path) as fh:
        left = fh.read()
    if left != SENTINEL:
        return kind + "+partial", payload
    return kind, payload


# ----------------------------------------------------------------------------
# reference: edge-family model (union-find over (block, global direction))
class Families:
    def __init__(self, script):
        self.script = script
        n = len(script["cells"])
        self.parent = {(b, g): (b, g) for b in range(n) for g in range(3)}
        edges = {}
        for b in range(n):
            cell = tuple(script["cells"][b])
            for c1, c2 in bm.EDGES:
                g, _ = bm.edge_axis(c1, c2)
                key = frozenset((lattice_vertex_id(cell, c1), lattice_vertex_id(cell, c2)))
                edges.setdefault(key, []).append((b, g))
        self.geom_edges = edges
        for members in edges.values():
            for m in members[1:]:
                self.union(members[0], m)

    def find(self, x):
        while self.parent[x] != x:
            self.parent[x] = self.parent[self.parent[x]]
            x = self.parent[x]
        return x

    def union(self, a, b):
        ra, rb = self.find(a), self.find(b)
        if ra != rb:
            self.parent[max(ra, rb)] = min(ra, rb)

    def classes(self):
        out = {}
        for x in self.parent:
            out.setdefault(self.find(x), []).append(x)
        return {k: sorted(v) for k, v in out.items()}


def chop_count_unit(kws, length=1.0):
    """cell count of a list of section kwargs on an edge of given length, by the
    geometric-progression law (only the kinds used in the grading alphabets)"""
    import math

    total = 0
    for kw in kws:
        ell = length * kw.get("length_ratio", 1.0)
        if "count" in kw:
            total += int(kw["count"])
            continue
        r = kw.get("c2c_expansion", 1.0)
        if "start_size" in kw:
            s = kw["start_size"]
        elif "end_size" in kw:
            s = kw["end_size"]
            r = 1.0 / r
        else:
            raise AssertionError(kw)
        if abs(r - 1) < 1e-12:
            n = ell / s
        else:
            n = math.log(1 - ell / s * (1 - r)) / math.log(r)
        total += int(math.floor(n + 1e-9)) + 1
    return total


def expected(script):
    """-> ("undefined"|"conflict"|"ok", {family root: count}, families)"""
    fam = Families(script)
    per = {}
    for blk, g, kw in script["chops"]:
        per.setdefault((blk, g), []).append(kw)
    counts = {}
    for (blk, g), kws in per.items():
        counts.setdefault(fam.find((blk, g)), []).append(chop_count_unit(kws, (script.get("geometry") or {}).get("size", (1, 1, 1))[g]))
    classes = fam.classes()
    undefined = [r for r in classes if r not in counts]
    conflict = [r for r, c in counts.items() if len(set(c)) > 1]
    verdict = "ok"
    if conflict:
        verdict = "conflict"
    if undefined:
        verdict = "undefined" if not conflict else "conflict+undefined"
    return verdict, {r: c[0] for r, c in counts.items()}, fam


def parse_ok(text):
    return foamdict.parse(text)


def file_edge_counts(parsed):
    """{frozenset(vertex idx pair): [(block, axis, count)]} from the written file"""
    out = {}
    for bi, blk in enumerate(parsed["blocks"]):
        for a in range(3):
            for c1, c2 in bm.AXIS_EDGES[a]:
                key = frozenset((blk["v"][c1], blk["v"][c2]))
                out.setdefault(key, []).append((bi, a, blk["counts"][a]))
    return out
