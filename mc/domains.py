"""Deterministic finite domains (simplest element first)."""

from __future__ import annotations

import itertools
import math

import numpy as np

from mc.blockmesh_ref import CORNER_XYZ


# ----------------------------------------------------------------------------
# symmetry groups of the hexahedron as permutations of blockMesh corner labels
def _signed_perms():
    out = []
    for perm in itertools.permutations(range(3)):
        for signs in itertools.product((1, -1), repeat=3):
            m = np.zeros((3, 3), dtype=int)
            for r in range(3):
                m[r, perm[r]] = signs[r]
            out.append(m)
    return out


def _perm_of(m):
    """renumbered corner j sits where old corner pi[j] was: new P'[j] = P[pi[j]]"""
    pi = []
    for j in range(8):
        c = np.array(CORNER_XYZ[j]) - 0.5
        d = m @ c + 0.5
        pi.append(CORNER_XYZ.index(tuple(int(round(x)) for x in d)))
    return tuple(pi)


def _build_groups():
    rot, full = [], []
    for m in _signed_perms():
        p = _perm_of(m)
        det = int(round(np.linalg.det(m)))
        full.append((p, det))
        if det == 1:
            rot.append(p)
    ident = tuple(range(8))
    rot.sort(key=lambda p: (p != ident, p))
    full.sort(key=lambda pd: (pd[0] != ident, -pd[1], pd[0]))
    assert len(set(rot)) == 24 and len({p for p, _ in full}) == 48
    # closure
    s = set(rot)
    for a in rot:
        for b in rot:
            assert tuple(a[b[i]] for i in range(8)) in s
    return rot, full


HEXSYM24, HEXSYM48 = _build_groups()
# a 4-element subset that generates every alignment relation: identity, one rotation
# about each local axis direction
HEXSYM_GEN4 = [HEXSYM24[0]] + [p for p in HEXSYM24 if p in ((1, 2, 3, 0, 5, 6, 7, 4), (4, 5, 1, 0, 7, 6, 2, 3), (1, 5, 6, 2, 0, 4, 7, 3))]


def renumber(points8, perm):
    return [points8[perm[j]] for j in range(8)]


# ----------------------------------------------------------------------------
def unit_cell_points(cell, size=(1.0, 1.0, 1.0), origin=(0.0, 0.0, 0.0)):
    i, j, k = cell
    return [
        (origin[0] + (i + x) * size[0], origin[1] + (j + y) * size[1], origin[2] + (k + z) * size[2])
        for (x, y, z) in CORNER_XYZ
    ]


def lattice_cells(nx, ny, nz):
    return [(i, j, k) for k in range(nz) for j in range(ny) for i in range(nx)]


def sub_assemblies(cells, kmax, kmin=1, canonical=True):
    """all subsets of size kmin..kmax, smallest first; with canonical=True only one
    representative per translation class"""
    seen = set()
    out = []
    for k in range(kmin, kmax + 1):
        for sub in itertools.combinations(cells, k):
            if canonical:
                mn = tuple(min(c[i] for c in sub) for i in range(3))
                key = tuple(sorted(tuple(c[i] - mn[i] for i in range(3)) for c in sub))
                if key in seen:
                    continue
                seen.add(key)
            out.append(list(sub))
    return out


def contact(c1, c2):
    d = sorted(abs(c1[i] - c2[i]) for i in range(3))
    if d[2] > 1:
        return "none"
    return {0: "same", 1: "face", 2: "edge", 3: "vertex"}[sum(d)]


def is_vertex_connected(cells):
    cells = list(cells)
    if not cells:
        return True
    seen = {cells[0]}
    todo = [cells[0]]
    while todo:
        c = todo.pop()
        for d in cells:
            if d not in seen and contact(c, d) != "none":
                seen.add(d)
                todo.append(d)
    return len(seen) == len(cells)


# ----------------------------------------------------------------------------
# fixed, versioned table of placements (rigid motions) and jitters
def _rot(axis, angle):
    axis = np.asarray(axis, dtype=float)
    axis = axis / np.linalg.norm(axis)
    x, y, z = axis
    c, s = math.cos(angle), math.sin(angle)
    C = 1 - c
    return np.array(
        [
            [c + x * x * C, x * y * C - z * s, x * z * C + y * s],
            [y * x * C + z * s, c + y * y * C, y * z * C - x * s],
            [z * x * C - y * s, z * y * C + x * s, c + z * z * C],
        ]
    )


FRAMES = [
    (np.eye(3), np.zeros(3)),
    (np.array([[0.0, 1, 0], [0, 0, 1], [1, 0, 0]]), np.array([0.0, 0, 0])),
    (np.array([[0.0, 0, 1], [1, 0, 0], [0, 1, 0]]), np.array([1.0, -2, 0.5])),
    (_rot([0, 0, 1], math.pi / 2), np.array([-3.0, 0.25, 2])),
    (_rot([1, 2, 3], 0.7), np.array([0.3, -1.1, 2.2])),
    (_rot([-2, 1, 0.5], 2.1), np.array([-5.0, 4.0, 0.7])),
    (_rot([0.3, -1, 2], 3.9), np.array([10.0, -7.0, 3.3])),
    (_rot([1, 1, -1], 5.3), np.array([0.0, 0.0, -20.0])),
]


def frame_apply(frame, pts):
    R, t = frame
    p = np.asarray(pts, dtype=float)
    return p @ R.T + t


def frame_vec(frame, v):
    return np.asarray(v, dtype=float) @ frame[0].T


# deterministic pseudo-jitter table: unit vectors from a fixed irrational sequence
def jitter_vec(k):
    a = (k + 1) * 0.6180339887498949
    b = (k + 1) * 0.7548776662466927
    z = 2 * (a % 1.0) - 1
    phi = 2 * math.pi * (b % 1.0)
    r = math.sqrt(max(0.0, 1 - z * z))
    return np.array([r * math.cos(phi), r * math.sin(phi), z])


JITTER_LEVELS = [0.0, 0.05, 0.15]


def lin(a, b, n):
    return [a + (b - a) * i / (n - 1) for i in range(n)]


def logspace(a, b, n):
    la, lb = math.log10(a), math.log10(b)
    return [10 ** (la + (lb - la) * i / (n - 1)) for i in range(n)]
