"""blockMesh conventions, written from the OpenFOAM user guide (section 4.3), NOT
imported from classy_blocks.util.constants.  Part of the trusted base.

hex (v0 ... v7): v0..v3 is the bottom face, counter-clockwise seen from the top
(so that x1 = v0->v1, x2 = v0->v3, x3 = v0->v4 form a right-handed system),
v4..v7 lie above v0..v3.
"""

import math

# unit-cube coordinates of the 8 corners
CORNER_XYZ = [(0, 0, 0), (1, 0, 0), (1, 1, 0), (0, 1, 0), (0, 0, 1), (1, 0, 1), (1, 1, 1), (0, 1, 1)]

# the 12 edges in the order edgeGrading lists them (user guide, fig. 4.6):
# 4 along x1, 4 along x2, 4 along x3, each pair directed along the positive local axis
EDGES = [
    (0, 1), (3, 2), (7, 6), (4, 5),
    (0, 3), (1, 2), (5, 6), (4, 7),
    (0, 4), (1, 5), (2, 6), (3, 7),
]  # fmt: skip
AXIS_EDGES = [EDGES[0:4], EDGES[4:8], EDGES[8:12]]

# the 6 faces as corner sets
FACES = {
    "bottom": (0, 1, 2, 3),
    "top": (4, 5, 6, 7),
    "left": (0, 3, 7, 4),  # x1 = 0
    "right": (1, 2, 6, 5),  # x1 = 1
    "front": (0, 1, 5, 4),  # x2 = 0
    "back": (3, 2, 6, 7),  # x2 = 1
}


def edge_axis(c1, c2):
    """local axis (0,1,2) of the edge joining corners c1, c2, and +1/-1 for its sense; None if not an edge"""
    a, b = CORNER_XYZ[c1], CORNER_XYZ[c2]
    diff = [b[i] - a[i] for i in range(3)]
    nz = [i for i in range(3) if diff[i] != 0]
    if len(nz) != 1:
        return None
    return nz[0], diff[nz[0]]


def is_right_handed(points):
    """points: 8 xyz in hex order; all 8 corner triple products positive"""
    import numpy as np

    p = np.asarray(points, dtype=float)
    ok = True
    worst = math.inf
    for c in range(8):
        x, y, z = CORNER_XYZ[c]
        nx = CORNER_XYZ.index((1 - x, y, z))
        ny = CORNER_XYZ.index((x, 1 - y, z))
        nz = CORNER_XYZ.index((x, y, 1 - z))
        e1 = (p[nx] - p[c]) * (1 if x == 0 else -1)
        e2 = (p[ny] - p[c]) * (1 if y == 0 else -1)
        e3 = (p[nz] - p[c]) * (1 if z == 0 else -1)
        t = float(np.dot(np.cross(e1, e2), e3))
        worst = min(worst, t)
        if t <= 0:
            ok = False
    return ok, worst


def section_sizes(length, n, expansion):
    """cell sizes of one graded section: n cells, last/first = expansion"""
    n = int(n)
    if n == 1:
        return [length]
    r = expansion ** (1.0 / (n - 1))
    if abs(r - 1) < 1e-14:
        return [length / n] * n
    first = length * (1 - r) / (1 - r**n)
    return [first * r**k for k in range(n)]


def edge_sizes(length, total_count, sections):
    """sections: [(length fraction, cell fraction or count, expansion)], blockMesh
    normalises both fractions; returns the list of cell sizes along the edge"""
    ls = sum(s[0] for s in sections)
    ns = sum(s[1] for s in sections)
    sizes = []
    if len(sections) == 1:
        return section_sizes(length, total_count, sections[0][2])
    remaining = total_count
    for k, (lf, nf, e) in enumerate(sections):
        if k == len(sections) - 1:
            n = remaining
        else:
            n = int(round(nf / ns * total_count))
            remaining -= n
        sizes += section_sizes(length * lf / ls, max(n, 1), e)
    return sizes


def circle_through(p0, pm, p1):
    """centre, radius, included angle (on the side of pm) of the arc p0-pm-p1"""
    import numpy as np

    p0, pm, p1 = (np.asarray(x, dtype=float) for x in (p0, pm, p1))
    a = pm - p0
    b = p1 - p0
    axb = np.cross(a, b)
    n2 = float(np.dot(axb, axb))
    if n2 < 1e-30:
        return None
    c = p0 + (np.dot(a, a) * np.cross(b, axb) - np.dot(b, b) * np.cross(a, axb)) / (2 * n2)
    r = float(np.linalg.norm(p0 - c))
    u = (p0 - c) / r
    nrm = axb / math.sqrt(n2)
    v = np.cross(nrm, u)

    def ang(p):
        d = p - c
        t = math.atan2(float(np.dot(d, v)), float(np.dot(d, u)))
        return t if t >= 0 else t + 2 * math.pi

    tm, t1 = ang(pm), ang(p1)
    # orientation nrm is chosen so that pm comes before p1 counter-clockwise iff tm < t1
    theta = t1 if tm <= t1 else 2 * math.pi - t1
    return c, r, theta


def polyline_length(points):
    import numpy as np

    p = np.asarray(points, dtype=float)
    return float(np.sum(np.linalg.norm(p[1:] - p[:-1], axis=1)))
