"""Independent reader for the blockMeshDict subset Mesh.write can emit.
Shares no code with classy_blocks.  A syntax error raises FoamSyntaxError."""

from __future__ import annotations

import re


class FoamSyntaxError(Exception):
    pass


_tok_re = re.compile(r'\s+|//[^\n]*|/\*.*?\*/|"[^"\n]*"|[(){};]|[^\s(){};"]+', re.S)


def tokenize(text: str):
    toks = []
    pos = 0
    n = len(text)
    while pos < n:
        m = _tok_re.match(text, pos)
        if not m:
            raise FoamSyntaxError(f"cannot tokenize at {pos}: {text[pos:pos+30]!r}")
        t = m.group(0)
        pos = m.end()
        if t[0].isspace() or t.startswith("//") or t.startswith("/*"):
            continue
        toks.append(t)
    return toks


class _P:
    def __init__(self, toks):
        self.t = toks
        self.i = 0

    def peek(self):
        return self.t[self.i] if self.i < len(self.t) else None

    def next(self):
        if self.i >= len(self.t):
            raise FoamSyntaxError("unexpected end of file")
        x = self.t[self.i]
        self.i += 1
        return x

    def expect(self, x):
        y = self.next()
        if y != x:
            raise FoamSyntaxError(f"expected {x!r}, got {y!r} at token {self.i}")

    def plist(self):
        """( ... ) with nested lists -> python list of str / lists"""
        self.expect("(")
        out = []
        while True:
            t = self.peek()
            if t is None:
                raise FoamSyntaxError("unterminated list")
            if t == ")":
                self.next()
                return out
            if t == "(":
                out.append(self.plist())
            elif t in "{};":
                raise FoamSyntaxError(f"unexpected {t!r} inside list")
            else:
                out.append(self.next())

    def pdict(self):
        """{ key value; key { } key ( ) ; ... } -> list of (key, value)"""
        self.expect("{")
        out = []
        while True:
            t = self.peek()
            if t is None:
                raise FoamSyntaxError("unterminated dictionary")
            if t == "}":
                self.next()
                return out
            out.append(self.entry())

    def entry(self):
        key = self.next()
        if key in "(){};":
            raise FoamSyntaxError(f"unexpected {key!r} where a keyword was expected")
        t = self.peek()
        if t == "{":
            val = self.pdict()
            if self.peek() == ";":
                self.next()
            return (key, val)
        vals = []
        while True:
            t = self.peek()
            if t is None:
                raise FoamSyntaxError(f"entry {key!r} not terminated")
            if t == ";":
                self.next()
                break
            if t == "(":
                vals.append(self.plist())
            elif t in "{})":
                raise FoamSyntaxError(f"unexpected {t!r} in entry {key!r}")
            else:
                vals.append(self.next())
        return (key, vals)


def _f(x):
    try:
        return float(x)
    except (TypeError, ValueError):
        raise FoamSyntaxError(f"not a number: {x!r}") from None


def _i(x):
    try:
        return int(x)
    except (TypeError, ValueError):
        raise FoamSyntaxError(f"not an integer: {x!r}") from None


def _pt(lst):
    if not isinstance(lst, list) or len(lst) != 3:
        raise FoamSyntaxError(f"not a point: {lst!r}")
    return tuple(_f(x) for x in lst)


def _grading_items(lst):
    """items of simpleGrading/edgeGrading: number or ((l n e) ...)"""
    out = []
    for it in lst:
        if isinstance(it, list):
            secs = []
            for s in it:
                if not isinstance(s, list) or len(s) != 3:
                    raise FoamSyntaxError(f"bad multi-grading section {s!r}")
                secs.append((_f(s[0]), _f(s[1]), _f(s[2])))
            out.append(secs)
        else:
            out.append([(1.0, 1.0, _f(it))])
    return out


def parse_file_text(text: str) -> dict:
    """Full parse; the boundary section (a list of dictionaries) is handled here."""
    # split out the boundary section textually on token level
    toks = tokenize(text)
    out_toks = []
    boundary = None
    i = 0
    depth = 0
    while i < len(toks):
        t = toks[i]
        if depth == 0 and t == "boundary" and i + 1 < len(toks) and toks[i + 1] == "(":
            p = _P(toks)
            p.i = i + 2
            patches = []
            while p.peek() != ")":
                if p.peek() is None:
                    raise FoamSyntaxError("unterminated boundary")
                name = p.next()
                body = p.pdict()
                patch = {"name": name, "type": None, "settings": [], "faces": []}
                for key, val in body:
                    if key == "type":
                        patch["type"] = val[0] if val else None
                    elif key == "faces":
                        (fl,) = val
                        patch["faces"] = [[_i(x) for x in q] for q in fl]
                    else:
                        patch["settings"].append((key + " " + " ".join(_flat(x) for x in val)).strip())
                patches.append(patch)
            p.next()
            p.expect(";")
            boundary = patches
            i = p.i
            continue
        if t in "({":
            depth += 1
        elif t in ")}":
            depth -= 1
        out_toks.append(t)
        i += 1
    # re-run the generic parser without the boundary section
    p = _P(out_toks)
    d = _parse_tokens(p)
    d["boundary"] = boundary if boundary is not None else []
    # vertex index comments
    m = re.search(r"\nvertices\s*\((.*?)\n\);", text, re.S)
    comments = []
    if m:
        for line in m.group(1).splitlines():
            line = line.strip()
            if not line:
                continue
            mm = re.search(r"//\s*(\d+)\s*$", line)
            comments.append(int(mm.group(1)) if mm else None)
    d["vertex_comments"] = comments
    return d


def _parse_tokens(p: _P) -> dict:
    # same as parse() but from a token stream
    text_free = p.t
    q = _P(text_free)
    top = []
    while q.peek() is not None:
        top.append(q.entry())
    return _interpret(top)


def _interpret(top):
    # share the interpretation code of parse() by re-serialising is clumsy; instead
    # parse() is implemented through this function
    d = {"settings": {}, "order": [k for k, _ in top], "geometry": {}, "vertices": [], "blocks": [], "edges": [], "faces": [],
         "defaultPatch": None, "mergePatchPairs": None}
    seen = set()
    for k, v in top:
        if k in seen:
            raise FoamSyntaxError(f"duplicate top-level entry {k}")
        seen.add(k)
        if k == "FoamFile":
            d["FoamFile"] = {a: (b[0] if b else None) for a, b in v}
        elif k == "geometry":
            for name, props in v:
                if not isinstance(props, list) or (props and not isinstance(props[0], tuple)):
                    raise FoamSyntaxError(f"geometry entry {name} is not a dictionary")
                if name in d["geometry"]:
                    raise FoamSyntaxError(f"duplicate geometry {name}")
                d["geometry"][name] = [(a + " " + " ".join(_flat(x) for x in b)).strip() for a, b in props]
        elif k == "vertices":
            (lst,) = v
            j = 0
            while j < len(lst):
                if lst[j] == "project":
                    d["vertices"].append({"pos": _pt(lst[j + 1]), "project": list(lst[j + 2])})
                    j += 3
                else:
                    d["vertices"].append({"pos": _pt(lst[j]), "project": []})
                    j += 1
        elif k == "blocks":
            (lst,) = v
            j = 0
            while j < len(lst):
                if lst[j] != "hex":
                    raise FoamSyntaxError(f"expected hex, got {lst[j]!r}")
                idx = [_i(x) for x in lst[j + 1]]
                if len(idx) != 8:
                    raise FoamSyntaxError("hex needs 8 vertices")
                j += 2
                zone = ""
                if not isinstance(lst[j], list):
                    zone = lst[j]
                    j += 1
                counts = [_i(x) for x in lst[j]]
                if len(counts) != 3:
                    raise FoamSyntaxError("hex needs 3 counts")
                kind = lst[j + 1]
                if kind not in ("simpleGrading", "edgeGrading"):
                    raise FoamSyntaxError(f"unknown grading kind {kind!r}")
                items = _grading_items(lst[j + 2])
                if kind == "simpleGrading" and len(items) != 3:
                    raise FoamSyntaxError("simpleGrading needs 3 items")
                if kind == "edgeGrading" and len(items) != 12:
                    raise FoamSyntaxError(f"edgeGrading needs 12 items, got {len(items)}")
                d["blocks"].append({"v": idx, "zone": zone, "counts": counts, "kind": kind, "grading": items})
                j += 3
        elif k == "edges":
            (lst,) = v
            j = 0
            while j < len(lst):
                kind = lst[j]
                a, b = _i(lst[j + 1]), _i(lst[j + 2])
                data = lst[j + 3]
                if kind == "arc":
                    e = {"kind": "arc", "v": (a, b), "point": _pt(data)}
                elif kind in ("spline", "polyLine"):
                    e = {"kind": kind, "v": (a, b), "points": [_pt(x) for x in data]}
                elif kind == "project":
                    e = {"kind": "project", "v": (a, b), "labels": list(data)}
                else:
                    raise FoamSyntaxError(f"unknown edge kind {kind!r}")
                d["edges"].append(e)
                j += 4
        elif k == "faces":
            (lst,) = v
            j = 0
            while j < len(lst):
                if lst[j] != "project":
                    raise FoamSyntaxError("faces: expected project")
                d["faces"].append({"v": [_i(x) for x in lst[j + 1]], "label": lst[j + 2]})
                j += 3
        elif k == "defaultPatch":
            d["defaultPatch"] = {a: (b[0] if b else None) for a, b in v}
        elif k == "mergePatchPairs":
            (lst,) = v
            d["mergePatchPairs"] = [tuple(x) for x in lst]
        else:
            d["settings"][k] = " ".join(_flat(x) for x in v)
    return d


def _flat(x):
    if isinstance(x, list):
        return "(" + " ".join(_flat(y) for y in x) + ")"
    return str(x)


def parse(text: str) -> dict:
    return parse_file_text(text)


def parse_vtk(text: str):
    lines = text.splitlines()
    pts = []
    cells = []
    i = 0
    while i < len(lines):
        ln = lines[i].split()
        if ln and ln[0] == "POINTS":
            n = int(ln[1])
            for k in range(n):
                pts.append(tuple(float(x) for x in lines[i + 1 + k].split()))
            i += n
        elif ln and ln[0] == "CELLS":
            n = int(ln[1])
            for k in range(n):
                row = [int(x) for x in lines[i + 1 + k].split()]
                if row[0] != len(row) - 1:
                    raise FoamSyntaxError("vtk cell row length mismatch")
                cells.append(row[1:])
            i += n
        i += 1
    return pts, cells
