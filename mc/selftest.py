"""Engine self-test (run by setup): symmetry groups, parser round trip, progression model."""
import math
import os
import sys


def main():
    from mc import blockmesh_ref as bm
    from mc import domains, foamdict, runner

    assert len(domains.HEXSYM24) == 24 and len(domains.HEXSYM48) == 48
    for perm in domains.HEXSYM24:
        pts = domains.renumber(domains.unit_cell_points((0, 0, 0)), perm)
        assert bm.is_right_handed(pts)[0]
    for perm, det in domains.HEXSYM48:
        pts = domains.renumber(domains.unit_cell_points((0, 0, 0)), perm)
        assert bm.is_right_handed(pts)[0] == (det == 1)
    for n, e in ((1, 1.0), (5, 3.0), (7, 0.2), (4, 1.0)):
        s = bm.section_sizes(2.0, n, e)
        assert math.isclose(sum(s), 2.0, rel_tol=1e-12) and math.isclose(s[-1] / s[0], e if n > 1 else 1.0, rel_tol=1e-9)
    c, r, th = bm.circle_through((1, 0, 0), (0, 1, 0), (-1, 0, 0))
    assert math.isclose(r, 1, rel_tol=1e-12) and math.isclose(th, math.pi, rel_tol=1e-12)
    c, r, th = bm.circle_through((1, 0, 0), (0, -1, 0), (0, 1, 0))
    assert math.isclose(th, 1.5 * math.pi, rel_tol=1e-12)
    import classy_blocks as cb

    m = cb.Mesh()
    b = cb.Box([0, 0, 0], [1, 1, 1])
    for a in range(3):
        b.chop(a, count=2 + a)
    b.set_patch("left", "in")
    m.add(b)
    p = os.path.join(runner.scratch_dir(), "selftest")
    m.write(p)
    d = foamdict.parse(open(p).read())
    assert d["blocks"][0]["counts"] == [2, 3, 4] and len(d["vertices"]) == 8 and d["boundary"][0]["name"] == "in"
    print("selftest ok")


if __name__ == "__main__":
    sys.exit(main())
