"""Common driver: enumerate a property's declared finite case space, execute every
case on the real library (16 forked long-lived workers), evaluate the oracle on
every case, filter known findings, write evidence + replay artefacts.

A property module provides
    ID, LEVEL ("model_checking" | "exploration"), RULE, ASSUMPTIONS, DESIGN_REF
    cases(tier, seed)      -> list of JSON-serialisable dicts (simplest first)
    run_case(case)         -> dict(violations=[{clause, coords, detail}],
                                   outcome=str, nontrivial=bool,
                                   execs=int, states=int, transitions=int)
    render_replay(case, violation) -> str   (optional stand-alone script)

Exit codes: 0 held (maybe KNOWN-FINDING lines), 1 VIOLATION, 2 harness error.
"""

from __future__ import annotations

import hashlib
import importlib
import json
import multiprocessing as mp
import os
import shutil
import subprocess
import sys
import tempfile
import time
import traceback

ROOT = os.path.dirname(os.path.dirname(os.path.abspath(__file__)))
# (VERIF_EVIDENCE_DIR: only tools/try_wt.sh sets it, so that trial runs against seeded changes leave the evidence alone)
EVIDENCE_DIR = os.environ.get("VERIF_EVIDENCE_DIR") or os.path.join(ROOT, "evidence")
REPLAY_DIR = os.path.join(ROOT, "replays")
FINDINGS_FILE = os.path.join(ROOT, "known_findings.json")

NPROC = int(os.environ.get("VERIF_NPROC", "16"))


class HarnessError(Exception):
    """My machinery is broken (never reported as a VIOLATION)."""


# ----------------------------------------------------------------------------
# scratch directory for Mesh.write output (created at run time, removed at exit)
_scratch = None


def scratch_dir() -> str:
    global _scratch
    if _scratch is None or not os.path.isdir(_scratch) or _scratch_pid != os.getpid():
        _make_scratch()
    return _scratch


_scratch_pid = None


def _make_scratch():
    global _scratch, _scratch_pid
    if _scratch is not None and _scratch_pid is not None and _scratch_pid != os.getpid() and os.path.isdir(_scratch):
        # forked pool worker: its exit skips atexit, so it works in a sub-directory of the parent's
        # scratch directory, which the parent removes
        base = _scratch
    else:
        base = "/dev/shm" if os.path.isdir("/dev/shm") and os.access("/dev/shm", os.W_OK) else tempfile.gettempdir()
    _scratch = tempfile.mkdtemp(prefix="cbverif_", dir=base)
    _scratch_pid = os.getpid()
    import atexit

    pid = os.getpid()
    path = _scratch

    def _rm():
        if os.getpid() == pid:
            shutil.rmtree(path, ignore_errors=True)

    atexit.register(_rm)


# ----------------------------------------------------------------------------
def load_prop(pid: str):
    return importlib.import_module(f"mc.props.{pid.lower()}")


def quiet_library():
    """Worker initialiser: the library prints reports; silence fds 1 and 2."""
    import warnings

    devnull = os.open(os.devnull, os.O_WRONLY)
    os.dup2(devnull, 1)
    os.dup2(devnull, 2)
    warnings.resetwarnings()
    warnings.simplefilter("ignore")


_PROP = None


def _worker_init(pid):
    # the property module and its worker_init() were already imported/run in the parent
    # (fork start method), so a broken tree fails there, once, with exit code 2
    quiet_library()


def _reset_between_cases():
    import warnings

    warnings.resetwarnings()
    warnings.simplefilter("ignore")
    try:
        import numpy as np

        np.random.seed(12345)
    except Exception:  # pragma: no cover
        pass


def _worker_run(item):
    idx, case = item
    _reset_between_cases()
    t0 = time.time()
    try:
        res = _PROP.run_case(case)
    except BaseException as err:  # harness error inside a case
        return idx, {"harness_error": f"{type(err).__name__}: {err}\n{traceback.format_exc()}"}
    res.setdefault("violations", [])
    res.setdefault("outcome", "ok")
    res.setdefault("nontrivial", True)
    res.setdefault("execs", 1)
    res.setdefault("states", 1)
    res.setdefault("transitions", res["execs"])
    res["wall"] = time.time() - t0
    return idx, res


def run_single_case(pid: str, case: dict) -> dict:
    """Run one case in this process (used by --case and --replay)."""
    prop = load_prop(pid)
    if hasattr(prop, "worker_init"):
        prop.worker_init()
    _reset_between_cases()
    res = prop.run_case(case)
    res.setdefault("violations", [])
    return res


# ----------------------------------------------------------------------------
def vsig(v: dict) -> str:
    return hashlib.sha1(json.dumps([v["clause"], v["coords"]], sort_keys=True, default=str).encode()).hexdigest()[:16]


def load_findings(pid: str):
    if not os.path.exists(FINDINGS_FILE):
        return []
    with open(FINDINGS_FILE) as fh:
        data = json.load(fh)
    return [e for e in data.get("findings", []) if e.get("property") == pid]


def finding_matches(entry: dict, v: dict) -> bool:
    if entry.get("status", "open") != "open":
        return False
    clause = entry.get("clause")
    if isinstance(clause, dict) and "any_of" in clause:
        # one defect that shows under several clauses of the same input
        if v["clause"] not in clause["any_of"]:
            return False
    elif clause != v["clause"]:
        return False
    for key, allowed in entry.get("match", {}).items():
        if key not in v["coords"]:
            return False
        val = v["coords"][key]
        if isinstance(allowed, dict) and "any_of" in allowed:
            if val not in allowed["any_of"]:
                return False
        elif val != allowed:
            return False
    return True


def confirm_in_fresh_process(pid: str, case: dict, expected_sigs: list) -> bool:
    """Replay determinism: the same case must yield the same violation signatures
    in a fresh interpreter."""
    env = dict(os.environ)
    env["PYTHONHASHSEED"] = "0"
    proc = subprocess.run(
        [sys.executable, "-m", "mc.cli", pid, "--case", json.dumps(case)],
        cwd=ROOT,
        env=env,
        capture_output=True,
        text=True,
        timeout=3600,
    )
    marker = "CASE-RESULT "
    for line in proc.stdout.splitlines():
        if line.startswith(marker):
            got = json.loads(line[len(marker) :])
            return sorted(got) == sorted(expected_sigs)
    raise HarnessError(f"fresh-process replay produced no result: rc={proc.returncode}\n{proc.stderr[-2000:]}")


def write_replay(prop, case: dict, v: dict) -> str:
    d = os.path.join(REPLAY_DIR, prop.ID)
    os.makedirs(d, exist_ok=True)
    path = os.path.join(d, vsig(v) + ".json")
    art = {"property": prop.ID, "clause": v["clause"], "coords": v["coords"], "detail": v.get("detail"), "case": case}
    if hasattr(prop, "render_replay"):
        try:
            script = prop.render_replay(case, v)
            if script:
                spath = path[:-5] + ".py"
                with open(spath, "w") as fh:
                    fh.write(script)
                art["script"] = spath
        except Exception as err:  # pragma: no cover
            art["script_error"] = str(err)
    with open(path, "w") as fh:
        json.dump(art, fh, indent=1, default=str)
    return path


# ----------------------------------------------------------------------------
def run_property(pid: str, tier: str, seed: int) -> int:
    t0 = time.time()
    prop = load_prop(pid)
    cases = list(prop.cases(tier, seed))
    if not cases:
        raise HarnessError("empty case space")

    global _PROP
    _PROP = prop
    try:
        if hasattr(prop, "worker_init"):
            prop.worker_init()
    except Exception as err:
        raise HarnessError(f"cannot prepare the library under test: {type(err).__name__}: {err}") from err
    items = list(enumerate(cases))
    results = [None] * len(items)
    nproc = min(NPROC, len(items))
    budget = float(os.environ.get("VERIF_BUDGET_S", "0") or 0)
    capped = False
    if nproc <= 1:
        for it in items:
            idx, res = _worker_run(it)
            results[idx] = res
    else:
        ctx = mp.get_context("fork")
        chunk = max(1, min(64, len(items) // (nproc * 8)))
        scratch_dir()  # created before the fork so that the workers nest theirs inside it
        with ctx.Pool(nproc, initializer=_worker_init, initargs=(pid,)) as pool:
            for idx, res in pool.imap_unordered(_worker_run, items, chunksize=chunk):
                results[idx] = res
                if budget and time.time() - t0 > budget:
                    capped = True
                    pool.terminate()
                    break

    done = [(i, r) for i, r in enumerate(results) if r is not None]
    herr = [(i, r) for i, r in done if "harness_error" in r]
    if herr:
        i, r = herr[0]
        print(f"HARNESS-ERROR property={pid} case={json.dumps(cases[i], default=str)[:400]}")
        print(r["harness_error"])
        return 2

    # determinism self-check: the first, a middle and the last case are executed again in this (parent)
    # process and must give the same outcome and the same violation signatures
    if os.environ.get("VERIF_NO_SELFCHECK") != "1" and done:
        for k in sorted({0, len(done) // 2, len(done) - 1}):
            i, r = done[k]
            if r.get("wall", 0) > 20:
                continue
            _, again = _worker_run((i, cases[i]))
            if "harness_error" in again:
                print(f"HARNESS-ERROR property={pid} self-check re-execution failed: {again['harness_error'][:300]}")
                return 2
            a = (r["outcome"], sorted(vsig(v) for v in r["violations"]))
            b = (again["outcome"], sorted(vsig(v) for v in again["violations"]))
            if a != b:
                print(f"HARNESS-ERROR property={pid} nondeterministic case {json.dumps(cases[i], default=str)[:300]}: {a} vs {b}")
                return 2

    findings = load_findings(pid)
    hits = {id(e): 0 for e in findings}
    new_violations = []  # (case index, violation)
    n_viol = 0
    outcomes = {}
    execs = states = transitions = 0
    nontrivial_keys = set()
    nontrivial_extra = 0  # distinct non-trivial evaluations counted inside multi-evaluation cases
    for i, r in done:
        execs += r["execs"]
        states += r["states"]
        transitions += r["transitions"]
        if isinstance(r.get("outcomes"), dict):
            for ok_, n_ in r["outcomes"].items():
                outcomes[ok_] = outcomes.get(ok_, 0) + n_
        else:
            outcomes[r["outcome"]] = outcomes.get(r["outcome"], 0) + 1
        if "nontrivial_n" in r:
            nontrivial_extra += int(r["nontrivial_n"])
        elif r["nontrivial"]:
            nontrivial_keys.add(json.dumps(cases[i], sort_keys=True, default=str))
        for v in r["violations"]:
            n_viol += 1
            matched = False
            for e in findings:
                if finding_matches(e, v):
                    hits[id(e)] += 1
                    matched = True
                    break
            if not matched:
                new_violations.append((i, v))

    rc = 0
    for e in findings:
        if e.get("status", "open") == "open":
            print(f"KNOWN-FINDING: property={pid} {e['what']} [clause={e['clause']} cases_absorbed={hits[id(e)]}]")

    if new_violations:
        # replay determinism on the first few before reporting
        by_case = {}
        for i, v in new_violations:
            by_case.setdefault(i, []).append(v)
        checked = 0
        for i, vs in by_case.items():
            if checked >= 2:
                break
            all_sigs = [vsig(v) for v in results[i]["violations"]]
            if not confirm_in_fresh_process(pid, cases[i], all_sigs):
                print(f"HARNESS-ERROR property={pid} nondeterministic replay of case {json.dumps(cases[i], default=str)[:400]}")
                return 2
            checked += 1
        seen = set()
        for i, v in new_violations:
            s = vsig(v)
            if s in seen:
                continue
            seen.add(s)
            if len(seen) > 25:
                break
            path = write_replay(prop, cases[i], v)
            print(f"VIOLATION property={pid} replay={path}")
            print(f"  clause={v['clause']} coords={json.dumps(v['coords'], default=str)[:300]}")
            print(f"  detail={str(v.get('detail'))[:500]}")
        per_clause = {}
        for _, v in new_violations:
            per_clause[v["clause"]] = per_clause.get(v["clause"], 0) + 1
        print(f"  ({len(new_violations)} violating observations in total, {len(by_case)} cases; per clause: {per_clause})")
        rc = 1

    wall = time.time() - t0
    sample_idx = sorted({0, len(done) // 2, len(done) - 1}) if done else []
    samples = []
    for k in sample_idx:
        i, r = done[k]
        samples.append({"case": cases[i], "outcome": r["outcome"], "execs": r["execs"]})
    exhaustive = (not capped) and len(done) == len(cases) and all(r.get("exhaustive", True) for _, r in done)
    cov = {
        "evaluations": execs,
        "distinct_nontrivial": len(nontrivial_keys) + nontrivial_extra,
        "rule": prop.RULE,
        "samples": samples,
        "states": max(states, 1),
        "transitions": max(transitions, 1),
        "traces_validated_against_impl": execs,
        "exhaustive": exhaustive,
        "cases_declared": len(cases),
        "cases_completed": len(done),
        "distinct_outcomes": outcomes,
        "capped_by_budget": capped,
        "known_findings_absorbed": {e["id"]: hits[id(e)] for e in findings if e.get("status", "open") == "open"},
        "bounds": getattr(prop, "bounds", lambda t: {})(tier) if hasattr(prop, "bounds") else {},
    }
    extra = {}
    for _, r in done:
        for k, val in r.get("counters", {}).items():
            extra[k] = extra.get(k, 0) + val
    if extra:
        cov["counters"] = extra
    ev = {
        "property_id": pid,
        "tier": tier,
        "seed": seed,
        "level": prop.LEVEL,
        "coverage": cov,
        "assumptions": list(getattr(prop, "ASSUMPTIONS", [])),
        "wall_s": round(wall, 3),
        "violations": len(new_violations),
    }
    os.makedirs(EVIDENCE_DIR, exist_ok=True)
    tmp = os.path.join(EVIDENCE_DIR, f".{pid}.json.tmp")
    with open(tmp, "w") as fh:
        json.dump(ev, fh, indent=1, default=str)
    os.replace(tmp, os.path.join(EVIDENCE_DIR, f"{pid}.json"))

    if len(outcomes) <= 1 and len(done) > 20 and not getattr(prop, "SINGLE_OUTCOME_OK", False):
        print(f"HARNESS-ERROR property={pid} vacuous exploration: {len(done)} cases, one outcome {list(outcomes)}")
        return 2
    print(
        f"{pid} tier={tier} seed={seed} cases={len(done)}/{len(cases)} execs={execs} states={states} "
        f"transitions={transitions} nontrivial={len(nontrivial_keys) + nontrivial_extra} outcomes={len(outcomes)} "
        f"violations={len(new_violations)} known_absorbed={sum(hits.values())} exhaustive={exhaustive} wall={wall:.1f}s"
    )
    return rc
