"""C20 - construction and life-cycle preconditions are enforced symmetrically."""

from __future__ import annotations

import itertools

import numpy as np

from mc.domains import FRAMES, frame_apply, frame_vec

ID = "C20"
LEVEL = "exploration"
DESIGN_REF = "DESIGN.md 5 C20"
RULE = (
    "finite catalogue: one row per documented precondition of the anchored constructors and mutators, each with "
    "arguments just inside, on, and outside the boundary ON EACH SIDE (index -1/0/max/max+1, lean +d/-d towards the "
    "axis, counts n-1/n/n+1, ratios 0/eps/1/1+eps/-0.5 ...); every (row, argument) is executed on the real library: "
    "outside => must raise one of the library's errors or Value/Lookup/RuntimeError, inside => must not raise; values "
    "within the tolerance band of a boundary are 'may'. non-trivial = every (row, argument) with a verdict other than 'may'"
    " Three-face shells in all six orders."
)
ASSUMPTIONS = [
    "the catalogue is hand-collected from docstrings and raise statements of the anchored files",
    "an out-of-range index surfacing as IndexError/KeyError counts as 'key error' (LookupError)",
]


def P(fr, p):
    return frame_apply(FRAMES[fr], [p])[0]


def V(fr, v):
    return frame_vec(FRAMES[fr], v)


def catalogue():
    """-> list of (row name, argument label, expectation 'in'|'out'|'may', thunk)"""
    import classy_blocks as cb
    from classy_blocks.construct.array import Array
    from classy_blocks.construct.flat.sketches.annulus import Annulus
    from classy_blocks.construct.point import Point
    from classy_blocks.grading.chop import Chop
    from classy_blocks.grading.grading import Grading
    from classy_blocks.items.block import Block
    from classy_blocks.items.side import Side
    from classy_blocks.items.vertex import Vertex
    from classy_blocks.util.frame import Frame

    rows = []

    def add(row, arg, exp, fn):
        rows.append((row, str(arg), exp, fn))

    quad = [[0, 0, 0], [1, 0, 0], [1, 1, 0], [0, 1, 0]]
    # --- numbers of points / edges
    for n, exp in ((3, "out"), (4, "in"), (5, "out")):
        pts = (quad + [[0.5, 1.5, 0]])[:n]
        add("Face(points)", n, exp, lambda pts=pts: cb.Face(pts))
    add("Face(points)", "2-D points", "out", lambda: cb.Face([[0, 0], [1, 0], [1, 1], [0, 1]]))
    for n, exp in ((3, "out"), (4, "in"), (5, "out")):
        add("Face(edges)", n, exp, lambda n=n: cb.Face(quad, [None] * n))
    for n, exp in ((2, "out"), (3, "in"), (4, "out")):
        add("Point(position)", n, exp, lambda n=n: Point([0.5] * n))
    for n, exp in ((1, "out"), (2, "in"), (3, "in")):
        add("Array(points)", n, exp, lambda n=n: Array([[i, 0, 0] for i in range(n)]))
    for n, exp in ((1, "out"), (2, "in")):
        add("DiscreteCurve(points)", n, exp, lambda n=n: cb.DiscreteCurve([[i, 0, 0] for i in range(n)]))
    for n, exp in ((1, "out"), (2, "in"), (3, "in"), (4, "in")):
        add("Operation.from_series(faces)", n, exp, lambda n=n: cb.Loft.from_series([cb.Face(np.array(quad) + [0, 0, k]) for k in range(n)]))
    for n, exp in ((7, "out"), (8, "in"), (9, "out")):
        add("Side(vertices)", n, exp, lambda n=n: Side("top", [Vertex([i, 0, 0], i) for i in range(n)]))
    # --- corner / axis indices
    for c, exp in ((-1, "out"), (0, "in"), (3, "in"), (4, "out")):
        add("Face.add_edge(corner)", c, exp, lambda c=c: cb.Face(quad).add_edge(c, cb.Arc([0.5, -0.2, 0])))
        add("Operation.add_side_edge(corner)", c, exp, lambda c=c: cb.Box([0, 0, 0], [1, 1, 1]).add_side_edge(c, cb.Arc([0.1, 0.1, 0.5])))
    for c, exp in ((-1, "out"), (0, "in"), (7, "in"), (8, "out")):
        add("Operation.project_corner(corner)", c, exp, lambda c=c: cb.Box([0, 0, 0], [1, 1, 1]).project_corner(c, "geo"))
    for (c1, c2), exp in (((0, 1), "in"), ((3, 0), "in"), ((2, 6), "in"), ((0, 2), "out"), ((0, 6), "out"), ((0, 8), "out"), ((-1, 0), "out"), ((4, 4), "out"), ((-1, 4), "out"), ((-1, 3), "out"), ((-8, 1), "out"), ((0, -4), "out"), ((4, -1), "out")):
        add("Operation.project_edge(corners)", (c1, c2), exp, lambda c1=c1, c2=c2: cb.Box([0, 0, 0], [1, 1, 1]).project_edge(c1, c2, "geo"))
    for a, exp in ((-1, "out"), (0, "in"), (2, "in"), (3, "out")):
        add("Operation.chop(axis)", a, exp, lambda a=a: cb.Box([0, 0, 0], [1, 1, 1]).chop(a, count=3))
    for s, exp in (("top", "in"), ("left", "in"), ("up", "out")):
        add("Operation.set_patch(side)", s, exp, lambda s=s: cb.Box([0, 0, 0], [1, 1, 1]).set_patch(s, "p"))
        add("Operation.project_side(side)", s, exp, lambda s=s: cb.Box([0, 0, 0], [1, 1, 1]).project_side(s, "geo"))

    def block():
        return Block(0, [Vertex(p, i) for i, p in enumerate([[0, 0, 0], [1, 0, 0], [1, 1, 0], [0, 1, 0], [0, 0, 1], [1, 0, 1], [1, 1, 1], [0, 1, 1]])])

    def blk_edge(c1, c2):
        from classy_blocks.items.edges.factory import factory

        b = block()
        b.add_edge(c1, c2, factory.create(b.vertices[c1 % 8], b.vertices[c2 % 8], cb.Arc([0.5, 0.5, 0.5])))

    for (c1, c2), exp in (((0, 1), "in"), ((-1, 0), "out"), ((0, 8), "out"), ((0, 2), "out")):
        add("Block.add_edge(corners)", (c1, c2), exp, lambda c1=c1, c2=c2: blk_edge(c1, c2))
    for (c1, c2), exp in (((0, 1), "in"), ((3, 7), "in"), ((0, 2), "out"), ((1, 7), "out")):
        add("Frame.add_beam(corners)", (c1, c2), exp, lambda c1=c1, c2=c2: Frame().add_beam(c1, c2, "x"))
    # --- projection labels on an edge
    for n, exp in ((0, "out"), (1, "in"), (2, "in"), (3, "out")):
        add("Project(labels)", n, exp, lambda n=n: cb.Project([f"g{i}" for i in range(n)]))

    # ... the same limit when the labels of one edge come from two operations that share it (either add order)
    def shared_edge_labels(first, second, second_added_first):
        import os

        from mc import runner

        a = cb.Box([0, 0, 0], [1, 1, 1])
        b = cb.Box([1, 0, 0], [2, 1, 1])
        a.project_edge(1, 2, first)
        b.project_edge(0, 3, second)
        for op in (a, b):
            for ax in range(3):
                op.chop(ax, count=1)
        m = cb.Mesh()
        for op in ((b, a) if second_added_first else (a, b)):
            m.add(op)
        m.write(os.path.join(runner.scratch_dir(), f"c20p_{os.getpid()}"))

    for order in (False, True):
        add("project_edge on an edge shared by two operations", f"2 + 1 surfaces, second added first={order}", "out", lambda order=order: shared_edge_labels(["g0", "g1"], "g2", order))
        add("project_edge on an edge shared by two operations", f"1 + 2 surfaces, second added first={order}", "out", lambda order=order: shared_edge_labels("g0", ["g1", "g2"], order))
        add("project_edge on an edge shared by two operations", f"1 + 1 surfaces, second added first={order}", "in", lambda order=order: shared_edge_labels("g0", "g1", order))
        add("project_edge on an edge shared by two operations", f"2 + 2 surfaces (the same two), second added first={order}", "in", lambda order=order: shared_edge_labels(["g0", "g1"], ["g1", "g0"], order))

    def add_labels(n):
        pr = cb.Project("g0")
        for i in range(1, n):
            pr.add_label(f"g{i}")

    for n, exp in ((2, "in"), (3, "out")):
        add("Project.add_label(total)", n, exp, lambda n=n: add_labels(n))

    def proj_edge_n(n):
        b = cb.Box([0, 0, 0], [1, 1, 1])
        for i in range(n):
            b.project_edge(0, 1, f"g{i}")

    for n, exp in ((2, "in"), (3, "out")):
        add("Operation.project_edge(total labels)", n, exp, lambda n=n: proj_edge_n(n))
    # --- section length ratio
    for r, exp in ((-0.5, "out"), (0.0, "out"), (1e-9, "in"), (0.5, "in"), (1.0, "in"), (1 + 1e-9, "may"), (1.5, "out")):
        add("Grading.add_chop(length_ratio)", r, exp, lambda r=r: Grading(1.0).add_chop(Chop(length_ratio=r, count=3)))
    # --- radii, perpendicularity (both directions), in two frames
    for fr in (0, 4):
        for inner, exp in ((0.3, "in"), (0.999, "in"), (1.0, "out"), (1.5, "out")):
            add(f"Annulus(inner_radius) f{fr}", inner, exp, lambda inner=inner, fr=fr: Annulus(P(fr, [0, 0, 0]), P(fr, [1, 0, 0]), V(fr, [0, 0, 1]), inner))
            add(f"ExtrudedRing(inner_radius) f{fr}", inner, exp, lambda inner=inner, fr=fr: cb.ExtrudedRing(P(fr, [0, 0, 0]), P(fr, [0, 0, 1]), P(fr, [1, 0, 0]), inner))
        # the same limit on the other side of zero: a negative inner radius puts the inner point on the far side of the
        # centre; with |inner| above the outer radius the ring is inside-out just the same
        for inner, exp in ((-1.5, "out"), (-2.0, "out"), (-1.0, "may")):
            add(f"Annulus(inner_radius) f{fr}", inner, exp, lambda inner=inner, fr=fr: Annulus(P(fr, [0, 0, 0]), P(fr, [1, 0, 0]), V(fr, [0, 0, 1]), inner))
            add(f"ExtrudedRing(inner_radius) f{fr}", inner, exp, lambda inner=inner, fr=fr: cb.ExtrudedRing(P(fr, [0, 0, 0]), P(fr, [0, 0, 1]), P(fr, [1, 0, 0]), inner))
        for inner, exp in ((0.0, "may"), (-0.3, "may")):
            add(f"ExtrudedRing(inner_radius) f{fr}", inner, exp, lambda inner=inner, fr=fr: cb.ExtrudedRing(P(fr, [0, 0, 0]), P(fr, [0, 0, 1]), P(fr, [1, 0, 0]), inner))
        for lean, exp in ((0.0, "in"), (1e-9, "may"), (-1e-9, "may"), (0.5, "out"), (-0.5, "out"), (1e-3, "out"), (-1e-3, "out")):
            rp = [0.7, 0.0, lean]
            add(f"Cylinder(radius vector lean) f{fr}", lean, exp, lambda rp=rp, fr=fr: cb.Cylinder(P(fr, [0, 0, 0]), P(fr, [0, 0, 1.5]), P(fr, rp)))
            add(f"SemiCylinder(radius vector lean) f{fr}", lean, exp, lambda rp=rp, fr=fr: cb.SemiCylinder(P(fr, [0, 0, 0]), P(fr, [0, 0, 1.5]), P(fr, rp)))
            add(f"Frustum(radius vector lean) f{fr}", lean, exp, lambda rp=rp, fr=fr: cb.Frustum(P(fr, [0, 0, 0]), P(fr, [0, 0, 1.5]), P(fr, rp), 0.4))
            add(f"ExtrudedRing(radius vector lean) f{fr}", lean, exp, lambda rp=rp, fr=fr: cb.ExtrudedRing(P(fr, [0, 0, 0]), P(fr, [0, 0, 1.5]), P(fr, rp), 0.3))
            add(f"Annulus(radius vector lean) f{fr}", lean, exp, lambda rp=rp, fr=fr: Annulus(P(fr, [0, 0, 0]), P(fr, rp), V(fr, [0, 0, 1]), 0.3))
    # the same leans on models 1000 times smaller and larger (a 1 mm pipe written in metres): lean given relative to the size
    for size in (1e-3, 1e3):
        for lean, exp in ((0.0, "in"), (0.05, "out"), (-0.05, "out"), (0.5, "out"), (-0.5, "out")):
            rp = [0.7 * size, 0.0, lean * size]
            top = [0, 0, 1.5 * size]
            add(f"Cylinder(radius vector lean) size {size}", lean, exp, lambda rp=rp, top=top: cb.Cylinder([0, 0, 0], top, rp))
            add(f"SemiCylinder(radius vector lean) size {size}", lean, exp, lambda rp=rp, top=top: cb.SemiCylinder([0, 0, 0], top, rp))
            add(f"Frustum(radius vector lean) size {size}", lean, exp, lambda rp=rp, top=top, size=size: cb.Frustum([0, 0, 0], top, rp, 0.4 * size))
            add(f"ExtrudedRing(radius vector lean) size {size}", lean, exp, lambda rp=rp, top=top, size=size: cb.ExtrudedRing([0, 0, 0], top, rp, 0.3 * size))
    for size in (1e-2, 1.0, 2e3):
        for lift, exp in ((0.0, "in"), (0.05, "out"), (-0.05, "out")):
            # a tilted plane in general position (so that round-off is realistic at large sizes)
            e1, e2, e3 = np.array([2.0, 1.0, 2.0]) / 3, np.array([-2.0, 2.0, 1.0]) / 3, np.array([1.0, 2.0, -2.0]) / 3
            pts = [size * (a * e1 + b * e2) + np.array([0.3, -1.1, 2.2]) * size for a, b in ((0, 0), (1, 0), (1, 1), (0, 1))]
            pts[2] = pts[2] + lift * size * e3
            add(f"Face(check_coplanar) size {size}", lift, exp, lambda pts=pts: cb.Face(pts, check_coplanar=True))
    for c, exp in ((-4, "out"), (-1, "out"), (0, "in"), (3, "in"), (4, "out")):

        def rm(c=c):
            f = cb.Face(quad, [cb.Arc([0.5, -0.2, 0]), cb.Arc([1.2, 0.5, 0]), cb.Arc([0.5, 1.2, 0]), cb.Arc([-0.2, 0.5, 0])])
            f.remove_edges([c])

        add("Face.remove_edges(corner)", c, exp, rm)

    # --- chain lengths
    def cyl():
        return cb.Cylinder([0, 0, 0], [0, 0, 1], [0.5, 0, 0])

    def ring():
        return cb.ExtrudedRing([0, 0, 0], [0, 0, 1], [1, 0, 0], 0.5)

    for length, exp in ((-1.0, "out"), (-1e-3, "out"), (0.0, "may"), (1.0, "in")):
        add("Cylinder.chain(length)", length, exp, lambda length=length: cb.Cylinder.chain(cyl(), length))
        add("Cylinder.chain(length, start)", length, exp, lambda length=length: cb.Cylinder.chain(cyl(), length, start_face=True))
        add("Frustum.chain(length)", length, exp, lambda length=length: cb.Frustum.chain(cyl(), length, 0.3))
        add("Frustum.chain(length, start)", length, exp, lambda length=length: cb.Frustum.chain(cyl(), length, 0.3, start_face=True))
        add("Frustum.chain(length, start, radius_mid)", length, exp, lambda length=length: cb.Frustum.chain(cyl(), length, 0.3, start_face=True, radius_mid=0.4))
        add("ExtrudedRing.chain(length)", length, exp, lambda length=length: cb.ExtrudedRing.chain(ring(), length))
        add("ExtrudedRing.chain(length, start)", length, exp, lambda length=length: cb.ExtrudedRing.chain(ring(), length, start_face=True))
    for r, exp in ((0.3, "in"), (0.5, "may"), (0.7, "out"), (0.0, "out"), (-0.2, "out")):
        add("ExtrudedRing.contract(inner_radius)", r, exp, lambda r=r: cb.ExtrudedRing.contract(ring(), r))
    for n, exp in ((8, "in"), (6, "out"), (10, "out")):
        add("Cylinder.fill(ring segments)", n, exp, lambda n=n: cb.Cylinder.fill(cb.ExtrudedRing([0, 0, 0], [0, 0, 1], [1, 0, 0], 0.5, n)))
    add("Elbow.chain(source sketch)", "Disk", "in", lambda: cb.Elbow.chain(cyl(), 1.0, [2, 0, 1], [0, 1, 0], 0.4))
    add("Elbow.chain(source sketch)", "Annulus", "out", lambda: cb.Elbow.chain(ring(), 1.0, [2, 0, 1], [0, 1, 0], 0.4))
    # --- sketches with different face counts
    g22 = lambda: cb.Grid([0, 0, 0], [1, 1, 0], 2, 2)  # noqa: E731
    g21 = lambda: cb.Grid([0, 0, 1], [1, 1, 1], 2, 1)  # noqa: E731
    add("LoftedShape(sketches)", "4 vs 4 faces", "in", lambda: cb.LoftedShape(g22(), g22().translate([0, 0, 1])))
    add("LoftedShape(sketches)", "4 vs 2 faces", "out", lambda: cb.LoftedShape(g22(), g21()))
    add("LoftedShape(sketches)", "mid 2 faces", "out", lambda: cb.LoftedShape(g22(), g22().translate([0, 0, 1]), g21()))
    add("LoftedShape(sketches)", "mid 4 faces", "in", lambda: cb.LoftedShape(g22(), g22().translate([0, 0, 1]), g22().translate([0, 0, 0.5])))
    # --- axis and corner indexes of stacks and faces
    stack_232 = lambda: cb.ExtrudedStack(cb.Grid([0, 0, 0], [2, 3, 0], 2, 3), 2.0, 2)  # noqa: E731
    for axis, exp in ((-1, "out"), (0, "in"), (1, "in"), (2, "in"), (3, "out")):
        add("Stack.get_slice(axis)", axis, exp, lambda axis=axis: stack_232().get_slice(axis, 0))
    for corner, exp in ((-1, "out"), (0, "in"), (3, "in"), (4, "out")):
        add("Face.project_edge(corner)", corner, exp, lambda corner=corner: cb.Face([[0, 0, 0], [1, 0, 0], [1, 1, 0], [0, 1, 0]]).project_edge(corner, "geo"))

        def twice(corner=corner):
            f = cb.Face([[0, 0, 0], [1, 0, 0], [1, 1, 0], [0, 1, 0]])
            for i in range(4):
                f.project_edge(i, "geo")
            f.project_edge(corner, "other")

        add("Face.project_edge(corner) on projected edges", corner, exp, twice)
    # a list of middle sketches: every list of <= 3 over {4 faces, 2 faces, 6 faces}; accepted iff all have 4
    import itertools as _it

    mids = {
        "4": lambda z: cb.Grid([0, 0, z], [1, 1, z], 2, 2),
        "2": lambda z: cb.Grid([0, 0, z], [1, 1, z], 2, 1),
        "6": lambda z: cb.Grid([0, 0, z], [1, 1, z], 3, 2),
    }
    for n in (1, 2, 3):
        for combo in _it.product("426", repeat=n):
            exp = "in" if set(combo) == {"4"} else "out"
            add(
                "LoftedShape(sketches, list of middle sketches)",
                " ".join(combo) + " faces",
                exp,
                lambda combo=combo: cb.LoftedShape(g22(), g22().translate([0, 0, 1]), [mids[c](0.25 * (k + 1)) for k, c in enumerate(combo)]),
            )

    # --- optimizer: clamps and links
    def mesh2():
        m = cb.Mesh()
        for x in (0, 1):
            b = cb.Box([x, 0, 0], [x + 1, 1, 1])
            for a in range(3):
                b.chop(a, count=1)
            m.add(b)
        m.assemble()
        return m

    def clamp_at(p, twice=False):
        opt = cb.MeshOptimizer(mesh2(), report=False)
        opt.add_clamp(cb.FreeClamp(p))
        if twice:
            opt.add_clamp(cb.FreeClamp(p))

    add("Optimizer.add_clamp(position)", "at a vertex", "in", lambda: clamp_at([1, 0, 0]))
    add("Optimizer.add_clamp(position)", "no vertex", "out", lambda: clamp_at([0.5, 0.5, 0.5]))
    add("Optimizer.add_clamp(position)", "second clamp on the vertex", "out", lambda: clamp_at([1, 0, 0], True))

    # the same after the vertex was moved (the optimizer was made before): "matches a vertex" means where the vertex IS
    def clamp_after_move(p):
        m = mesh2()
        opt = cb.MeshOptimizer(m, report=False)
        v = [x for x in m.vertices if np.allclose(x.position, [1, 0, 0])][0]
        v.move_to([1.3, 0.1, 0.05])
        opt.add_clamp(cb.FreeClamp(p))

    add("Optimizer.add_clamp(position) after a move", "where the vertex is now", "in", lambda: clamp_after_move([1.3, 0.1, 0.05]))
    add("Optimizer.add_clamp(position) after a move", "where the vertex was", "out", lambda: clamp_after_move([1, 0, 0]))

    def link_after_move(leader, follower):
        m = mesh2()
        opt = cb.MeshOptimizer(m, report=False)
        v = [x for x in m.vertices if np.allclose(x.position, [1, 0, 0])][0]
        v.move_to([1.3, 0.1, 0.05])
        opt.add_link(cb.TranslationLink(leader, follower))

    add("Optimizer.add_link(points) after a move", "leader where the vertex is now", "in", lambda: link_after_move([1.3, 0.1, 0.05], [1, 1, 0]))
    add("Optimizer.add_link(points) after a move", "leader where the vertex was", "out", lambda: link_after_move([1, 0, 0], [1, 1, 0]))

    def link(leader, follower):
        opt = cb.MeshOptimizer(mesh2(), report=False)
        opt.add_link(cb.TranslationLink(leader, follower))

    add("Optimizer.add_link(points)", "both at vertices", "in", lambda: link([1, 0, 0], [1, 1, 0]))
    add("Optimizer.add_link(points)", "leader at no vertex", "out", lambda: link([0.5, 0.5, 0.5], [1, 1, 0]))
    add("Optimizer.add_link(points)", "follower at no vertex", "out", lambda: link([1, 0, 0], [0.5, 0.5, 0.5]))
    add("Optimizer.add_link(points)", "leader == follower", "out", lambda: link([1, 0, 0], [1, 0, 0]))
    add("RotationLink(leader on axis)", "on axis", "out", lambda: cb.RotationLink([0, 0, 1], [1, 0, 0], [0, 0, 1], [0, 0, 0]))
    add("RotationLink(leader on axis)", "off axis", "in", lambda: cb.RotationLink([1, 0, 1], [1, 1, 0], [0, 0, 1], [0, 0, 0]))

    # --- a write() that is refused during assembly must not leave half a mesh behind for the next write()
    def write_after_refused_write(repair):
        import os

        from mc import foamdict, runner

        ops = []
        for x in range(3):
            b = cb.Box([x, 0, 0], [x + 1, 1, 1])
            for a in range(3):
                b.chop(a, count=1)
            ops.append(b)
        ops[1].bottom_face.add_edge(0, cb.Angle(0.0, [0, 0, 1]))  # a sector angle of 0: refused when the edge is made
        m = cb.Mesh()
        for b in ops:
            m.add(b)
        path = os.path.join(runner.scratch_dir(), f"c20_{os.getpid()}")
        try:
            m.write(path)
        except Exception:
            pass
        else:
            raise AssertionError("the first write() was expected to be refused")
        if repair:
            ops[1].bottom_face.add_edge(0, cb.Angle(0.5, [0, 0, 1]))
        m.write(path)
        n = len(foamdict.parse(open(path).read())["blocks"])
        if n != 3:
            raise AssertionError(f"{n} of 3 blocks written")

    add("Mesh.write() after a write() refused for an invalid edge", "input unchanged", "out", lambda: write_after_refused_write(False))
    add("Mesh.write() after a write() refused for an invalid edge", "input repaired", "in", lambda: write_after_refused_write(True))

    # --- life cycle
    def lifecycle(call, history):
        m = cb.Mesh()
        b = cb.Box([0, 0, 0], [1, 1, 1])
        for a in range(3):
            b.chop(a, count=1)
        m.add(b)
        for ev in history:
            getattr(m, ev)()
        getattr(m, call)()

    for call in ("grade", "backport"):
        add(f"Mesh.{call}()", "before assemble", "out", lambda call=call: lifecycle(call, []))
        add(f"Mesh.{call}()", "after assemble", "in", lambda call=call: lifecycle(call, ["assemble"]))
        # clear() undoes assemble(): the mesh is un-assembled again
        add(f"Mesh.{call}()", "after assemble, clear", "out", lambda call=call: lifecycle(call, ["assemble", "clear"]))
        add(f"Mesh.{call}()", "after assemble, clear, assemble", "in", lambda call=call: lifecycle(call, ["assemble", "clear", "assemble"]))
        add(f"Mesh.{call}()", "after assemble, backport", "in", lambda call=call: lifecycle(call, ["assemble", "backport"]))

    def empty_mesh(call):
        m = cb.Mesh()
        m.assemble()
        getattr(m, call)()

    for call in ("grade", "backport"):
        add(f"Mesh.{call}()", "empty mesh after assemble", "out", lambda call=call: empty_mesh(call))

    # --- shell
    def shell_chop(disconnected):
        f1 = cb.Face(quad)
        f2 = cb.Face(np.array(quad) + ([5, 5, 0] if disconnected else [1, 0, 0]))
        cb.Shell([f1, f2], 0.2).chop(count=2)

    add("Shell.chop(faces)", "connected", "in", lambda: shell_chop(False))
    add("Shell.chop(faces)", "disconnected", "out", lambda: shell_chop(True))

    # three faces, one of them touching no other: in whatever order they are listed
    def shell_chop3(order, lonely):
        f = [cb.Face(quad), cb.Face(np.array(quad) + [1, 0, 0]), cb.Face(np.array(quad) + ([5, 5, 0] if lonely else [2, 0, 0]))]
        cb.Shell([f[i] for i in order], 0.2).chop(count=2)

    for order in itertools.permutations(range(3)):
        add("Shell.chop(three faces)", f"all connected, order {order}", "in", lambda order=order: shell_chop3(order, False))
        add("Shell.chop(three faces)", f"one face apart, order {order}", "out", lambda order=order: shell_chop3(order, True))
    # --- arcs
    add("Angle(angle)", 0.0, "may", lambda: _angle_edge(0.0))
    add("Angle(angle)", 1.0, "in", lambda: _angle_edge(1.0))
    add("Angle(angle)", 7.0, "out", lambda: _angle_edge(7.0))
    add("Angle(angle)", -7.0, "out", lambda: _angle_edge(-7.0))
    return rows


def _angle_edge(theta):
    import classy_blocks as cb
    from classy_blocks.items.edges.factory import factory
    from classy_blocks.items.vertex import Vertex

    e = factory.create(Vertex([0, 0, 0], 0), Vertex([1, 0, 0], 1), cb.Angle(theta, [0, 0, 1]))
    return e.third_point


def cases(tier, seed):
    rows = catalogue()
    return [{"row": r, "arg": a, "expect": e, "index": i} for i, (r, a, e, _) in enumerate(rows)]


ALLOWED = (ValueError, LookupError, RuntimeError)


def run_case(case):
    rows = catalogue()
    row, arg, exp, fn = rows[case["index"]]
    coords = {"row": row, "arg": arg}
    violations = []
    raised = None
    try:
        fn()
    except Exception as err:
        raised = err
    if raised is None:
        outcome = "accepted"
        if exp == "out":
            violations.append({"clause": "violated-precondition-accepted", "coords": coords, "detail": f"{row} with {arg} did not raise"})
    else:
        mod = type(raised).__module__ or ""
        ok_class = isinstance(raised, ALLOWED) or mod.startswith("classy_blocks")
        outcome = "raised:" + type(raised).__name__
        if exp == "in":
            violations.append({"clause": "valid-argument-rejected", "coords": coords, "detail": f"{row} with {arg} raised {type(raised).__name__}: {str(raised)[:120]}"})
        elif exp == "out" and not ok_class:
            violations.append({"clause": "rejected-with-unrelated-exception", "coords": coords, "detail": f"{row} with {arg} raised {type(raised).__name__}: {str(raised)[:120]}"})
    return {"violations": violations, "outcome": f"{exp}:{outcome.split(':')[0]}", "nontrivial": exp != "may", "execs": 1}
