"""C19 - grid, slice and core/shell addressing of shapes and stacks is geometric."""

from __future__ import annotations

import math
import os

import numpy as np

from mc import blockmesh_ref as bm
from mc import foamdict, runner
from mc.domains import FRAMES, frame_apply, frame_vec

ID = "C19"
LEVEL = "exploration"
DESIGN_REF = "DESIGN.md 5 C19"
RULE = (
    "case = (stack kind, grid size n x m in 1..5 x 1..5, tiers 1..4) with every index triple and every slice, or (round "
    "shape / disk sketch class, frame); the addressed entity's geometry is compared with the cell computed by the harness "
    "from the construction parameters; deleting an addressed operation must remove exactly that block from the written "
    "file. non-trivial = every addressed index"
    " Revolved stacks with a negative angle / an axis off the origin."
)
ASSUMPTIONS = ["cells are identified by their centre / corner positions computed independently from the construction parameters"]


def cases(tier, seed):
    out = []
    nmax = 4 if tier == "quick" else 5
    for kind in ("extruded", "revolved", "transformed"):
        for n in range(1, nmax + 1):
            for m in range(1, nmax + 1):
                tiers = [1, 3] if tier == "quick" else [1, 2, 3, 4]
                if tier == "quick" and (n + m + seed) % 2 and n * m > 4:
                    tiers = [2]
                for t in tiers:
                    out.append({"what": "stack", "kind": kind, "n": n, "m": m, "tiers": t})
    # the extrusion amount given as every kind of real scalar a script may compute
    for amount in ("int", "np.float64", "np.int64", "np.float32", "np.array0d"):
        out.append({"what": "stack", "kind": "extruded", "n": 2, "m": 1, "tiers": 2, "amount": amount})
    # ... or as a vector (not only along the sketch's normal) or a negative distance
    for amount in ("vec_up", "vec_down", "vec_skew", "vec_np", "neg_float"):
        out.append({"what": "stack", "kind": "extruded", "n": 2, "m": 2, "tiers": 3, "amount": amount})
    for amount in ("neg_angle", "off_axis", "neg_off_axis"):
        for tiers in (1, 2, 3):
            out.append({"what": "stack", "kind": "revolved", "n": 2, "m": 3, "tiers": tiers, "amount": amount})
    frames = sorted({0, 4, 1 + seed % 7}) if tier == "quick" else list(range(len(FRAMES)))
    for fr in frames:
        for shape in ("Cylinder", "SemiCylinder", "Frustum", "Elbow", "ExtrudedRing", "RevolvedRing", "Hemisphere", "OneCoreDisk", "FourCoreDisk", "HalfDisk", "Oval", "WrappedDisk", "QuarterDisk", "QuarterSplineDisk", "HalfSplineDisk", "SplineDisk", "SplineDisk_circular"):
            out.append({"what": "round", "shape": shape, "frame": fr})
    for n, m, t in ((2, 3, 2), (3, 1, 1), (1, 1, 3)):
        out.append({"what": "delete", "n": n, "m": m, "tiers": t})
    out.append({"what": "delete_round", "shape": "Cylinder"})
    # the same with the counts given through the shape's / stack's own chop calls (held by one operation per direction)
    out.append({"what": "delete", "n": 2, "m": 3, "tiers": 2, "chops": "shape"})
    out.append({"what": "delete_round", "shape": "Cylinder", "chops": "shape"})
    return out


def rot(v, n, ang):
    n = np.asarray(n, float)
    n = n / np.linalg.norm(n)
    return v * math.cos(ang) + np.cross(n, v) * math.sin(ang) + n * float(np.dot(n, v)) * (1 - math.cos(ang))


P1 = np.array([0.5, 1.0, 0.0])
P2 = np.array([3.0, 2.5, 0.0])


def make_stack(kind, n, m, tiers, amount="float"):
    import classy_blocks as cb

    base = cb.Grid(P1, P2, n, m)
    if kind == "extruded":
        vectors = {"vec_up": [0, 0, 2.0], "vec_down": [0, 0, -2.0], "vec_skew": [0.5, -0.3, 2.0], "vec_np": np.array([0.2, 0.0, -1.5]), "neg_float": -2.0}
        if amount in vectors:
            # the whole extrusion as a vector (or a negative distance): tier k lies k / tiers of the way along it
            two = vectors[amount]
            whole = np.array([0, 0, two]) if amount == "neg_float" else np.asarray(two, dtype=float)
        else:
            two = {"float": 2.0, "int": 2, "np.float64": np.float64(2.0), "np.int64": np.int64(2), "np.float32": np.float32(2.0), "np.array0d": np.array(2.0)}[amount]
            whole = np.array([0, 0, 2.0])
        stack = cb.ExtrudedStack(base, two, tiers)
        maps = [lambda p, k=k: p + whole / tiers * k for k in range(tiers + 1)]
    elif kind == "revolved":
        # (neg_angle: the same revolution given as a negative angle about the opposite axis; off_axis: an axis that
        # does not pass through the origin)
        total, axis, origin = {"neg_angle": (-1.2, [-1, 0, 0], [0, 0, 0]), "off_axis": (0.9, [1, 0.2, 0], [0.3, -0.5, 0]), "neg_off_axis": (-0.9, [-1, -0.2, 0], [0.3, -0.5, 0])}.get(amount, (1.2, [1, 0, 0], [0, 0, 0]))
        stack = cb.RevolvedStack(base, total, axis, origin, tiers)
        maps = [lambda p, k=k: np.asarray(origin, float) + rot(p - np.asarray(origin, float), axis, total / tiers * k) for k in range(tiers + 1)]
    else:
        tvec, ang = np.array([0.1, 0.0, 0.7]), 0.25

        def step(p):
            return rot(p + tvec, [0, 0, 1], ang)

        stack = cb.TransformedStack(base, [cb.Translation(tvec), cb.Rotation([0, 0, 1], ang, [0, 0, 0])], tiers)

        def mk(k):
            def f(p):
                for _ in range(k):
                    p = step(p)
                return p

            return f

        maps = [mk(k) for k in range(tiers + 1)]
    return stack, maps


def cell_corners(n, m, i, j, k, maps):
    dx = (P2[0] - P1[0]) / n
    dy = (P2[1] - P1[1]) / m
    quad = [
        np.array([P1[0] + i * dx, P1[1] + j * dy, 0.0]),
        np.array([P1[0] + (i + 1) * dx, P1[1] + j * dy, 0.0]),
        np.array([P1[0] + (i + 1) * dx, P1[1] + (j + 1) * dy, 0.0]),
        np.array([P1[0] + i * dx, P1[1] + (j + 1) * dy, 0.0]),
    ]
    return np.array([maps[k](q) for q in quad] + [maps[k + 1](q) for q in quad])


def run_stack(case):
    n, m, tiers = case["n"], case["m"], case["tiers"]
    stack, maps = make_stack(case["kind"], n, m, tiers, case.get("amount", "float"))
    violations = []
    execs = 0

    def bad(clause, detail, **kw):
        violations.append({"clause": clause, "coords": dict(case, **kw), "detail": detail})

    ops = stack.operations
    if len(ops) != n * m * tiers or len({id(o) for o in ops}) != len(ops):
        bad("operation-count", f"{len(ops)} operations for a {n}x{m}x{tiers} stack")
    grid = stack.grid
    centre_of = {}
    for k in range(tiers):
        for j in range(m):
            for i in range(n):
                execs += 1
                try:
                    op = grid[k][j][i]
                except Exception as err:
                    bad("grid-index-raised", f"{type(err).__name__}", i=i, j=j, k=k)
                    continue
                want = cell_corners(n, m, i, j, k, maps)
                got = np.array(op.point_array)
                if np.max(np.linalg.norm(got - want, axis=1)) > 1e-9:
                    # as a set of corners?
                    same_set = sorted(map(tuple, np.round(got, 7))) == sorted(map(tuple, np.round(want, 7)))
                    bad("grid-addresses-other-cell" if not same_set else "grid-cell-corner-order", f"grid[{k}][{j}][{i}] has centre {np.round(op.center, 4).tolist()}, cell (column {i}, row {j}, tier {k}) has centre {np.round(want.mean(axis=0), 4).tolist()}", i=i, j=j, k=k)
                centre_of[id(op)] = (i, j, k)
    # slices
    for axis, count in ((0, n), (1, m), (2, tiers)):
        for idx in range(count):
            execs += 1
            try:
                sl = stack.get_slice(axis, idx)
            except Exception as err:
                bad("slice-raised", f"{type(err).__name__}: {err}", axis=axis, index=idx)
                continue
            want = set()
            for k in range(tiers):
                for j in range(m):
                    for i in range(n):
                        if (i, j, k)[axis] == idx:
                            want.add((i, j, k))
            got = []
            for op in sl:
                c = np.array(op.center)
                best = None
                for k in range(tiers):
                    for j in range(m):
                        for i in range(n):
                            if np.linalg.norm(cell_corners(n, m, i, j, k, maps).mean(axis=0) - c) < 1e-9:
                                best = (i, j, k)
                got.append(best)
            if len(got) != len(set(got)) or set(got) != want:
                bad("slice-wrong-operations", f"get_slice({axis}, {idx}) -> cells {sorted(g for g in got if g)}{' (+unknown)' if None in got else ''}, expected {sorted(want)}", axis=axis, index=idx)
    return violations, execs


def run_round(case):
    import classy_blocks as cb

    fr = case["frame"]
    P = lambda p: frame_apply(FRAMES[fr], [p])[0]  # noqa: E731
    Vv = lambda v: frame_vec(FRAMES[fr], v)  # noqa: E731
    name = case["shape"]
    violations = []
    sketch = None
    if name == "Cylinder":
        e = cb.Cylinder(P([0, 0, 0]), P([0, 0, 1.5]), P([0.7, 0, 0]))
    elif name == "SemiCylinder":
        e = cb.SemiCylinder(P([0, 0, 0]), P([0, 0, 1.5]), P([0.7, 0, 0]))
    elif name == "Frustum":
        e = cb.Frustum(P([0, 0, 0]), P([0, 0, 1.5]), P([0.7, 0, 0]), 0.4)
    elif name == "Elbow":
        e = cb.Elbow(P([0, 0, 0]), P([0.5, 0, 0]), Vv([0, 0, 1]), 1.1, P([2, 0, 0]), Vv([0, 1, 0]), 0.4)
    elif name == "ExtrudedRing":
        e = cb.ExtrudedRing(P([0, 0, 0]), P([0, 0, 0.8]), P([1.0, 0, 0]), 0.5, 6)
    elif name == "RevolvedRing":
        # a ring of 6 blocks revolved about the (frame's) z axis; every block touches the outer surface r = 1.0
        e = cb.RevolvedRing(P([0, 0, 0]), P([0, 0, 1]), cb.Face([P([0.5, 0, 0.1]), P([0.5, 0, 0.9]), P([1.0, 0, 0.9]), P([1.0, 0, 0.1])]), 6)
    elif name == "Hemisphere":
        e = cb.Hemisphere(P([0, 0, 0]), P([0.8, 0, 0]), Vv([0, 0, 1]))
    else:
        e = None
        if name == "OneCoreDisk":
            sketch = cb.OneCoreDisk(P([0, 0, 0]), P([0.8, 0, 0]), Vv([0, 0, 1]))
        elif name == "FourCoreDisk":
            sketch = cb.FourCoreDisk(P([0, 0, 0]), P([0.8, 0, 0]), Vv([0, 0, 1]))
        elif name == "HalfDisk":
            sketch = cb.HalfDisk(P([0, 0, 0]), P([0.8, 0, 0]), Vv([0, 0, 1]))
        elif name == "Oval":
            sketch = cb.Oval(P([0, 0, 0]), P([0, 1.0, 0]), Vv([0, 0, 1]), 0.5)
        elif name == "QuarterDisk":
            from classy_blocks.construct.flat.sketches.disk import QuarterDisk

            sketch = QuarterDisk(P([0, 0, 0]), P([0.8, 0, 0]), Vv([0, 0, 1]))
        elif name in ("QuarterSplineDisk", "HalfSplineDisk", "SplineDisk"):
            sketch = getattr(cb, name)(P([0, 0, 0]), P([1, 0, 0]), P([0, 1.2, 0]), 0.2, 0.3)
        elif name == "SplineDisk_circular":
            sketch = cb.SplineDisk(P([0, 0, 0]), P([1, 0, 0]), P([0, 1.0, 0]), 0.0, 0.0)
        else:
            sketch = cb.WrappedDisk(P([0, 0, 0]), P([1.0, 1.0, 0]), 0.5, Vv([0, 0, 1]))

    def bad(clause, detail):
        violations.append({"clause": clause, "coords": dict(case), "detail": detail})

    if e is not None:
        ops = e.operations
        try:
            core, shell = list(e.core), list(e.shell)
            grid_ops = [o for row in e.grid for o in row]
        except Exception as err:
            bad("core-shell-grid-raised", f"{type(err).__name__}: {err}")
            return violations, 1
        if sorted(id(o) for o in grid_ops) != sorted(id(o) for o in ops):
            bad("grid-not-a-partition-of-operations", f"{len(grid_ops)} vs {len(ops)}")
        ids = [id(o) for o in ops]
        if sorted(id(o) for o in core + shell) != sorted(ids) or len(set(id(o) for o in core + shell)) != len(core) + len(shell):
            bad("core-shell-not-a-partition", f"{len(core)} core + {len(shell)} shell vs {len(ops)} operations")

        def on_outer(op):
            """one side of the operation lies on the outer surface"""
            pts = np.array(op.point_array)
            if name == "Hemisphere":
                c, R = P([0, 0, 0]), 0.8
                r = np.linalg.norm(pts - c, axis=1)
                flags = np.abs(r - R) < 1e-6
            elif name == "Elbow":
                # distance from the swept centre line: radius varies linearly with the sweep angle
                ac, ax = P([2, 0, 0]), Vv([0, 1, 0])
                flags = []
                for p in pts:
                    d = p - ac
                    h = float(d @ ax)
                    inpl = d - h * ax
                    ang = math.atan2(float(np.cross(P([0, 0, 0]) - ac, inpl) @ ax), float((P([0, 0, 0]) - ac) @ inpl))
                    centre = ac + rot(P([0, 0, 0]) - ac, ax, ang)
                    R = 0.5 + (0.4 - 0.5) * (ang / 1.1)
                    flags.append(abs(np.linalg.norm(p - centre) - R) < 1e-6)
                flags = np.array(flags)
            else:
                o, axv = P([0, 0, 0]), Vv([0, 0, 1])
                axv = axv / np.linalg.norm(axv)
                h = (pts - o) @ axv
                r = np.linalg.norm(np.cross(pts - o, axv), axis=1)
                if name == "Frustum":
                    R = 0.7 + (0.4 - 0.7) * h / 1.5
                elif name in ("ExtrudedRing", "RevolvedRing"):
                    R = np.full(8, 1.0)
                else:
                    R = np.full(8, 0.7)
                flags = np.abs(r - R) < 1e-6
            return any(all(flags[c] for c in cs) for cs in bm.FACES.values())

        for op in ops:
            in_shell = any(op is s for s in shell)
            if on_outer(op) != in_shell:
                bad("shell-membership-not-geometric", f"operation with centre {np.round(op.center, 4).tolist()}: in shell list {in_shell}, touches the outer surface {on_outer(op)}")
        execs = len(ops)
    else:
        faces = sketch.faces
        core, shell = list(sketch.core), list(sketch.shell)
        grid_faces = [f for row in sketch.grid for f in row]
        if sorted(id(f) for f in grid_faces) != sorted(id(f) for f in faces):
            bad("grid-not-a-partition-of-faces", f"{len(grid_faces)} vs {len(faces)}")
        if sorted(id(f) for f in core + shell) != sorted(id(f) for f in faces):
            bad("core-shell-not-a-partition", f"{len(core)} core + {len(shell)} shell faces vs {len(faces)} faces: {len(faces) - len({id(f) for f in core + shell})} faces are in neither list")
        pts = np.array([p for f in faces for p in f.point_array])
        if name == "Oval":
            c1, c2 = P([0, 0, 0]), P([0, 1.0, 0])

            def rad(p):
                t = float((p - c1) @ (c2 - c1)) / float((c2 - c1) @ (c2 - c1))
                t = min(1.0, max(0.0, t))
                return np.linalg.norm(p - (c1 + t * (c2 - c1)))

            R = 0.5
        else:
            c = P([0, 0, 0])

            def rad(p):
                return np.linalg.norm(p - c)

            R = 0.5 if name == "WrappedDisk" else 0.8
        # outline of the sketch from the faces alone: edges owned by one face; those on a line through the centre are
        # the straight cuts of quarter/half sketches, the others are the outer curve
        def ekey(a, b):
            return frozenset((tuple(np.round(a, 7)), tuple(np.round(b, 7))))

        owners = {}
        for f in faces:
            P4 = f.point_array
            for i in range(4):
                owners[ekey(P4[i], P4[(i + 1) % 4])] = owners.get(ekey(P4[i], P4[(i + 1) % 4]), 0) + 1
        centre0 = P([0, 0, 0])

        def outer_edge(a, b):
            if owners[ekey(a, b)] != 1:
                return False
            return np.linalg.norm(np.cross(a - centre0, b - centre0)) > 1e-9

        for f in faces:
            P4 = f.point_array
            on = [abs(rad(p) - R) < 1e-6 for p in P4]
            touches = any(on[i] and on[(i + 1) % 4] for i in range(4))
            if "Spline" in name or name == "QuarterDisk":
                touches = any(outer_edge(P4[i], P4[(i + 1) % 4]) for i in range(4))
            in_shell = any(f is s for s in shell)
            in_core = any(f is s for s in core)
            if name == "WrappedDisk":
                # three tiers: core / ring on the circle / wrapping; shell = grid[-1] is the wrapping
                continue
            if touches != in_shell or in_core == in_shell:
                bad("shell-membership-not-geometric", f"face with centre {np.round(f.center, 4).tolist()}: shell {in_shell}, core {in_core}, has an edge on the outer circle {touches}")
        execs = len(faces)
        # a shape extruded from the sketch (with a mid sketch: lofted) is addressed like the sketch: operation [i][j] stands
        # on face [i][j] of the sketch and ends straight above it
        vec = Vv([0.1, -0.2, 0.9])
        for variant in ("extruded", "lofted_mid"):
            try:
                if variant == "extruded":
                    shape = cb.ExtrudedShape(sketch, vec)
                else:
                    shape = cb.LoftedShape(sketch, sketch.copy().translate(vec), sketch.copy().translate(0.5 * np.asarray(vec)))
                g = shape.grid
            except Exception as err:
                bad("core-shell-grid-raised", f"{variant}: {type(err).__name__}: {err}")
                continue
            sg = sketch.grid
            if [len(r) for r in g] != [len(r) for r in sg]:
                bad("shape-grid-not-the-sketch-grid", f"{variant}: rows of {[len(r) for r in g]} operations on rows of {[len(r) for r in sg]} faces")
                continue
            for i, row in enumerate(g):
                for j, op in enumerate(row):
                    execs += 1
                    b = np.array(sg[i][j].point_array)
                    if np.max(np.linalg.norm(np.array(op.bottom_face.point_array) - b, axis=1)) > 1e-9:
                        bad("shape-grid-not-the-sketch-grid", f"{variant}: operation [{i}][{j}] does not stand on face [{i}][{j}] of the sketch")
                    elif np.max(np.linalg.norm(np.array(op.top_face.point_array) - (b + vec), axis=1)) > 1e-9:
                        bad("shape-grid-not-the-sketch-grid", f"{variant}: operation [{i}][{j}] stands on face [{i}][{j}] of the sketch but does not end above it")
    return violations, execs


def run_delete(case):
    import classy_blocks as cb

    violations = []
    execs = 0
    if case["what"] == "delete_round":
        def build():
            return cb.Cylinder([0, 0, 0], [0, 0, 1.5], [0.7, 0, 0])

        n_ops = len(build().operations)
        getters = [("core", i) for i in range(len(build().core))] + [("shell", i) for i in range(len(build().shell))]
    else:
        n, m, tiers = case["n"], case["m"], case["tiers"]

        def build():
            return make_stack("extruded", n, m, tiers)[0]

        getters = [("grid", (k, j, i)) for k in range(tiers) for j in range(m) for i in range(n)]
    for kind, idx in getters:
        execs += 1
        e = build()
        if kind == "grid":
            op = e.grid[idx[0]][idx[1]][idx[2]]
        else:
            op = getattr(e, kind)[idx]
        corners = sorted(map(tuple, np.round(op.point_array, 6)))

        def chop(ent):
            if case.get("chops") != "shape":
                for o in ent.operations:
                    for a in range(3):
                        o.chop(a, count=1)
            elif kind == "grid":
                ent.chop(count=2)
                for o in ent.get_slice(1, 0):
                    o.chop(0, count=2)
                for o in ent.get_slice(0, 0):
                    o.chop(1, count=2)
            else:
                ent.chop_axial(count=2)
                ent.chop_radial(count=2)
                ent.chop_tangential(count=2)

        chop(e)
        # the complete mesh, for reference: the curved edges of every block
        full = build()
        chop(full)
        mesh_full = cb.Mesh()
        mesh_full.add(full)
        path = os.path.join(runner.scratch_dir(), f"c19_{os.getpid()}")
        mesh_full.write(path)
        d_full = foamdict.parse(open(path).read())

        def curved(d):
            pos = [tuple(round(x, 6) for x in v["pos"]) for v in d["vertices"]]
            return {frozenset((pos[ed["v"][0]], pos[ed["v"][1]])): ed["kind"] for ed in d["edges"]}

        def block_edges(d):
            pos = [tuple(round(x, 6) for x in v["pos"]) for v in d["vertices"]]
            return {frozenset((pos[b["v"][c1]], pos[b["v"][c2]])) for b in d["blocks"] for c1, c2 in bm.EDGES}

        curved_full = curved(d_full)
        mesh = cb.Mesh()
        mesh.add(e)
        mesh.delete(op)
        all_cells = [sorted(map(tuple, np.round(o.point_array, 6))) for o in e.operations]
        want = [c for c in all_cells if c != corners]
        # the deletion holds for every later assembly of the same mesh as well
        for after in ("write", "write again", "clear + write", "backport + write"):
            co = dict(case, kind=kind, index=list(idx) if isinstance(idx, tuple) else idx, after=after)
            try:
                if after == "clear + write":
                    mesh.clear()
                elif after == "backport + write":
                    mesh.backport()
                mesh.write(path)
            except Exception as err:
                violations.append({"clause": "delete-write-raised", "coords": co, "detail": f"{type(err).__name__}: {err}"})
                break
            d = foamdict.parse(open(path).read())
            blocks = [sorted(tuple(round(x, 6) for x in d["vertices"][v]["pos"]) for v in b["v"]) for b in d["blocks"]]
            if sorted(blocks) != sorted(want):
                violations.append({"clause": "delete-removed-other-block", "coords": co, "detail": f"{len(blocks)} blocks written, {len(want)} expected; deleted cell still present: {corners in blocks}"})
                break
            # ... "and no other": the blocks that remain keep their curved edges
            have = curved(d)
            lost = [sorted(k) for k in block_edges(d) if k in curved_full and have.get(k) != curved_full[k]]
            if lost:
                violations.append({"clause": "delete-removed-curved-edges-of-other-blocks", "coords": co, "detail": f"{len(lost)} edges of remaining blocks are {curved_full[frozenset(map(tuple, lost[0]))]} edges in the complete mesh and straight (or another kind) after the deletion, e.g. {lost[0]}"})
                break
    return violations, execs


def run_case(case):
    if case["what"] == "stack":
        v, n = run_stack(case)
    elif case["what"] == "round":
        v, n = run_round(case)
    else:
        v, n = run_delete(case)
    return {"violations": v, "outcome": case["what"] + ":" + str(case.get("kind", case.get("shape", ""))), "execs": n, "nontrivial_n": n, "states": 1, "transitions": n}
