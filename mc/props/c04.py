"""C04 - cell-size distribution matches on shared edges and honours 'preserve'."""

from __future__ import annotations

import itertools
import math

import numpy as np

from mc import blockmesh_ref as bm
from mc import control, gradlab
from mc.domains import HEXSYM24, HEXSYM_GEN4

ID = "C04"
LEVEL = "model_checking"
DESIGN_REF = "DESIGN.md 5 C04"
RULE = (
    "case = (row/L assembly of 2-3 lattice cells with unequal edge lengths (stretched, jittered, tapered, one arc), "
    "subject direction, chop kind x preserve mode x single/two-section/two-section-mixed (preserving section + plain bulk section), corner numbering of every block); one chop per "
    "edge family (family model), executed by assemble+write; only the written file is observed and decoded onto the 12 "
    "edges of each block with blockMesh's progression. non-trivial = subject family spans >=2 blocks with unequal edge lengths"
)
ASSUMPTIONS = [
    "edge lengths: straight distance or three-point-arc length computed by the harness from the written vertices/edges",
    "blockMesh multi-grading semantics as in the user guide (length fractions, cell counts, expansion per section)",
    "chops are described in the positive lattice direction and inverted by the harness for anti-aligned local axes",
]

GEN = [HEXSYM24.index(p) for p in HEXSYM_GEN4]

ASSEMBLIES = {
    "row2": [(0, 0, 0), (1, 0, 0)],
    "row3": [(0, 0, 0), (1, 0, 0), (2, 0, 0)],
    "ell3": [(0, 0, 0), (1, 0, 0), (1, 1, 0)],
    "col2y": [(0, 0, 0), (0, 1, 0)],
}
# subject directions whose family spans all blocks
SUBJECT_DIRS = {"row2": [1, 2], "row3": [1, 2], "ell3": [2], "col2y": [0, 2]}

GEOMS = {
    "stretch": {"size": (1.0, 1.3, 0.7)},
    "jitter1": {"size": (1.0, 1.3, 0.7), "jitter": 1},
    "jitter2": {"size": (1.2, 0.8, 1.0), "jitter": 2},
    "taper": {"size": (1.0, 1.0, 1.0), "taper": 0.25},
    "arc": {"size": (1.0, 1.3, 0.7), "arcs": "auto"},
    # the same, but the arc on the shared edge is declared by ONE of the blocks that share it only (first / last added)
    "arc_first": {"size": (1.0, 1.3, 0.7), "arcs": "auto", "declared_by": "first"},
    "arc_last": {"size": (1.0, 1.3, 0.7), "arcs": "auto", "declared_by": "last"},
}

KINDS = {
    "count_c2c": {"count": 5, "c2c_expansion": 1.2},
    "start_c2c": {"start_size": 0.08, "c2c_expansion": 1.15},
    # (an end size e with growth r towards the end can fill at most e r / (r - 1): 2.2 edge lengths here, so the
    # chop stays realisable on the longest tapered / jittered edges of the alphabet)
    "end_c2c": {"end_size": 0.2, "c2c_expansion": 1.1},
    "count_start": {"count": 6, "start_size": 0.07},
    "count_total": {"count": 5, "total_expansion": 3.0},
    "count_end": {"count": 4, "end_size": 0.12},
    # a cell size with the overall ratio: the count is rounded, the given ratio is what must be written
    "start_total": {"start_size": 0.1, "total_expansion": 2.0},
    "end_total": {"end_size": 0.15, "total_expansion": 0.5},
    # uniform cells: with two sections (same count on 0.3 and 0.7 of the edge) every expansion is exactly 1 and only the
    # ORDER of the sections tells the two ends apart
    "count_only": {"count": 4},
}
PRESERVE = ["c2c_expansion", "start_size", "end_size"]


def worker_init():
    control.install_choice_sets()
    control.install_progress_monitor()


def numberings(name, tier):
    n = len(ASSEMBLIES[name])
    if n == 2:
        firsts = [0] if tier == "quick" else GEN
        return [[a, b] for a in firsts for b in range(24)]
    if tier == "quick":
        out = [[0, m, t] for m in range(24) for t in GEN]
        return out
    return [[a, m, t] for a in (0, GEN[1]) for m in range(24) for t in range(24)]


def cases(tier, seed):
    out = []
    geoms = list(GEOMS)
    if tier == "quick":
        geoms = ["stretch", "arc", "arc_first", "arc_last", ["jitter1", "jitter2", "taper"][seed % 3]]
    for name in ASSEMBLIES:
        if tier == "quick" and name == "col2y":
            continue
        for g in SUBJECT_DIRS[name]:
            for geom in geoms:
                for kind in KINDS:
                    for pres in PRESERVE:
                        for sections in (1, 2, "2m"):
                            if tier == "quick" and sections != 1 and kind in ("count_end", "count_total"):
                                continue
                            if sections == "2m" and pres == "c2c_expansion":
                                continue
                            out.append({"assembly": name, "dir": g, "geom": geom, "kind": kind, "preserve": pres, "sections": sections, "tier": tier})
                            if geom == "stretch" and sections == 1:
                                out.append({"assembly": name, "dir": g, "geom": geom, "kind": kind, "preserve": pres, "sections": sections, "tier": tier, "rewrite": True})
                            if geom == "stretch" and sections == 1 and len(ASSEMBLIES[name]) == 3 and (pres == "c2c_expansion" or pres in KINDS[kind]):
                                # the first AND the last block carry the request (equal blocks: no conflict), the one in
                                # between copies from both; written, stretched, written again.
                                # (Only requests that GIVE the preserved quantity: a size that is derived - e.g. the last
                                # cell of start_size + c2c_expansion - is taken before or after rounding the count depending
                                # on which end it is at, so the request and its mirror image rightly differ; section 13)
                                out.append({"assembly": name, "dir": g, "geom": geom, "kind": kind, "preserve": pres, "sections": sections, "tier": tier, "rewrite": True, "twochop": True})
                            if geom in ("jitter1", "jitter2", "taper") and sections == 1 and pres == "c2c_expansion" and name == "row2" and kind.startswith("count"):
                                # (a request that fixes the count: with a size-derived count the two blocks rightly conflict)
                                out.append({"assembly": name, "dir": g, "geom": geom, "kind": kind, "preserve": pres, "sections": sections, "tier": tier, "overspec": True})
    # library shapes: ONE graded tangential (sketch axis 1) chop given through the shape's own chop call
    for name in SHAPES:
        for chop in ("total", "c2c"):
            out.append({"what": "shape", "shape": name, "chop": chop})
    return out


SHAPES = [
    "Cylinder", "SemiCylinder", "Frustum", "Elbow", "ExtrudedRing", "RevolvedRing", "Hemisphere", "EighthSphere", "TJoint", "LJoint", "NJoint3", "NJoint5",
    "x:OneCoreDisk", "x:FourCoreDisk", "x:HalfDisk", "x:Oval", "x:WrappedDisk", "x:SplineDisk", "x:HalfSplineDisk", "x:QuarterSplineDisk",
    "x:SplineRing", "x:HalfSplineRing", "x:QuarterSplineRing",
]  # fmt: skip


def make_shape(name):
    import classy_blocks as cb

    if name.startswith("x:"):
        n = name[2:]
        if n in ("OneCoreDisk", "FourCoreDisk", "HalfDisk"):
            sk = getattr(cb, n)([0, 0, 0], [1, 0, 0], [0, 0, 1])
        elif n == "Oval":
            sk = cb.Oval([0, 0, 0], [0, 1.0, 0], [0, 0, 1], 0.5)
        elif n == "WrappedDisk":
            sk = cb.WrappedDisk([0, 0, 0], [1.0, 1.0, 0], 0.5, [0, 0, 1])
        elif "Ring" in n:
            sk = getattr(cb, n)([0, 0, 0], [1, 0, 0], [0, 1.4, 0], 0.3, 0.2, 0.3, 0.3)
        else:
            sk = getattr(cb, n)([0, 0, 0], [1, 0, 0], [0, 1.4, 0], 0.3, 0.2)
        return cb.ExtrudedShape(sk, 0.8), "sketch"
    if name == "Cylinder":
        return cb.Cylinder([0, 0, 0], [0, 0, 1.5], [0.7, 0, 0]), "round"
    if name == "SemiCylinder":
        return cb.SemiCylinder([0, 0, 0], [0, 0, 1.5], [0.7, 0, 0]), "round"
    if name == "Frustum":
        return cb.Frustum([0, 0, 0], [0, 0, 1.5], [0.7, 0, 0], 0.4), "round"
    if name == "Elbow":
        return cb.Elbow([0, 0, 0], [0.5, 0, 0], [0, 0, 1], 1.1, [2, 0, 0], [0, 1, 0], 0.4), "round"
    if name == "ExtrudedRing":
        return cb.ExtrudedRing([0, 0, 0], [0, 0, 0.8], [1.0, 0, 0], 0.5, 6), "round"
    if name == "RevolvedRing":
        return cb.RevolvedRing([0, 0, 0], [0, 0, 1], cb.Face([[0.5, 0, 0.1], [0.5, 0, 0.9], [1.0, 0, 0.9], [1.0, 0, 0.1]]), 6), "round"
    if name == "Hemisphere":
        return cb.Hemisphere([0, 0, 0], [0.8, 0, 0], [0, 0, 1]), "round"
    if name == "EighthSphere":
        from classy_blocks.construct.shapes.sphere import EighthSphere

        return EighthSphere([0, 0, 0], [0.8, 0, 0], [0, 0, 1]), "round"
    if name == "TJoint":
        return cb.TJoint([0, 0, 0], [2, 0, 0], [0, 0, 0.5]), "round"
    if name == "LJoint":
        return cb.LJoint([0, 0, 0], [2, 0, 0], [0, 0, 0.5]), "round"
    if name.startswith("NJoint"):
        return cb.NJoint([0, 0, 0], [2, 0, 0], [0, 0, 0.5], int(name[6:])), "round"
    raise AssertionError(name)


def run_shape(case):
    """one graded request, preserve = cell-to-cell expansion (the default): count and ratio are the same on every
    edge the request reaches, so the four parallel edges of every block carry ONE expansion (written as such or its
    reciprocal, never a mixture), whatever their lengths"""
    import os

    import classy_blocks as cb

    from mc import foamdict, runner

    coords = dict(case)
    violations = []
    kw = {"count": 8, "total_expansion": 3.0} if case["chop"] == "total" else {"count": 6, "c2c_expansion": 1.25}
    try:
        shape, kind = make_shape(case["shape"])
        if kind == "round":
            shape.chop_axial(count=3)
            shape.chop_radial(count=3)
            shape.chop_tangential(**kw)
        else:
            shape.chop(0, count=3)
            shape.chop(2, count=3)
            shape.chop(1, **kw)
        mesh = cb.Mesh()
        mesh.add(shape)
        path = os.path.join(runner.scratch_dir(), f"c04s_{os.getpid()}")
        mesh.write(path)
        d = foamdict.parse(open(path).read())
    except Exception as err:
        violations.append({"clause": "well-posed-chops-rejected", "coords": coords, "detail": f"{type(err).__name__}: {str(err)[:200]}"})
        return {"violations": violations, "outcomes": {"raised": 1}, "execs": 1, "nontrivial_n": 1, "states": 1, "transitions": 1}
    mixed = 0
    for bi, blk in enumerate(d["blocks"]):
        if blk["kind"] != "edgeGrading":
            continue
        for a in range(3):
            exps = [item[0][2] if len(item) == 1 else None for item in blk["grading"][4 * a : 4 * a + 4]]
            if None in exps:
                continue
            if max(exps) > 1 + 1e-9 and min(exps) < 1 - 1e-9 or not all(close(x, exps[0], 1e-9) for x in exps):
                mixed += 1
                if mixed == 1:
                    violations.append({"clause": "parallel-edges-of-a-block-graded-from-opposite-ends", "coords": coords, "detail": f"block {bi} direction {a}: expansions of its four parallel edges {[round(x, 6) for x in exps]} after ONE {kw} request through the shape's chop call"})
    graded = sum(1 for blk in d["blocks"] for item in blk["grading"] if len(item) == 1 and abs(item[0][2] - 1) > 1e-9)
    return {"violations": violations, "outcomes": {f"shape:{'mixed' if mixed else 'uniform-per-block'}": 1}, "execs": 1, "nontrivial_n": int(graded > 0), "states": 1, "transitions": 1}


def bounds(tier):
    return {"blocks": "2-3", "numberings": "24 on the neighbour (x4 on the third block)" if tier == "quick" else "24x24"}


# ----------------------------------------------------------------------------
def subject_chops(case, size_g):
    kw = dict(KINDS[case["kind"]])
    for k in ("start_size", "end_size"):
        if k in kw:
            kw[k] = kw[k] * size_g
    kw["preserve"] = case["preserve"]
    if case["sections"] == 1:
        return [kw]
    a = dict(kw, length_ratio=0.3)
    b = dict(kw, length_ratio=0.7)
    if case["sections"] == "2m":
        # a size-preserving (wall) section followed by a bulk section that keeps its cell-to-cell ratio: the four
        # parallel edges of a block then differ in the FIRST section only
        b = {"length_ratio": 0.7, "count": 4, "c2c_expansion": 1.1}
    # sizes are absolute: make the first (short) section finer so that it holds at least a few cells
    for k in ("start_size", "end_size"):
        if k in a:
            a[k] = a[k] * 0.4
    return [a, b]


def make_script(case, numbering):
    cells = ASSEMBLIES[case["assembly"]]
    geo = dict(GEOMS[case["geom"]])
    g = case["dir"]
    if geo.get("arcs") == "auto":
        # an arc on one lattice edge along the subject direction that belongs to the LAST block only
        # (a free edge of the block the chop propagates to) and one on a shared edge
        last = cells[-1]
        lo = list(last)
        hi = list(last)
        hi[g] += 1
        # pick the corner of the last block farthest from the first block
        far = [last[i] + (1 if last[i] >= cells[0][i] and i != g else 0) for i in range(3)]
        far[g] = last[g]
        far2 = list(far)
        far2[g] += 1
        off = [0.0, 0.0, 0.0]
        off[(g + 1) % 3] = 0.18
        off[(g + 2) % 3] = 0.07
        geo["arcs"] = [[far, far2, off]]
        if geo.get("declared_by"):
            # an arc on an edge (along the subject direction) of the face the first two blocks share
            p1 = [max(a, b) for a, b in zip(cells[0], cells[1])]
            p2 = list(p1)
            p2[g] += 1
            geo["arcs"] = [[p1, p2, off, geo["declared_by"]]]
    script = {"cells": cells, "numbering": numbering, "chops": [], "order": list(range(len(cells))), "geometry": geo}
    fam = gradlab.Families(script)
    subject_root = fam.find((0, g))
    size = geo.get("size", (1, 1, 1))
    chops = []
    for k, root in enumerate(sorted(fam.classes())):
        if root == subject_root:
            for kw in subject_chops(case, size[g]):
                chops.append([0, g, kw])
        else:
            chops.append([root[0], root[1], {"count": 2 + k % 3}])
    if case.get("overspec") or case.get("twochop"):
        # the same request is also given to the last block of the subject family (a user chopping "every block the same")
        last = max(m[0] for m in fam.parent if fam.find(m) == subject_root)
        for kw in subject_chops(case, size[g]):
            chops.append([last, g, kw])
    script["chops"] = chops
    return script, fam, subject_root


def section_sizes_list(length, count, sections):
    """per section: list of cell sizes (blockMesh multi-grading)"""
    if len(sections) == 1:
        return [bm.section_sizes(length, count, sections[0][2])]
    ls = sum(s[0] for s in sections)
    out = []
    for lf, nf, e in sections:
        out.append(bm.section_sizes(length * lf / ls, max(int(round(nf)), 1), e))
    return out


def decode(text, script):
    """-> {(lattice id lo, lattice id hi): [(cell of block, sections sizes in canonical direction)]}"""
    d = gradlab.parse_ok(text)
    # position -> lattice id
    posmap = {}
    for b in range(len(script["cells"])):
        pts, ids = gradlab.block_points(script, b)
        for p, i in zip(pts, ids):
            posmap[tuple(round(float(x), 6) for x in p)] = i
    vid = []
    for v in d["vertices"]:
        key = tuple(round(float(x), 6) for x in v["pos"])
        if key not in posmap:
            # tolerate -0.0 / rounding in the 6th decimal
            best = min(posmap, key=lambda k: sum((k[i] - key[i]) ** 2 for i in range(3)))
            if sum((best[i] - key[i]) ** 2 for i in range(3)) > 1e-10:
                raise AssertionError(f"written vertex {v['pos']} is not a lattice vertex")
            key = best
        vid.append(posmap[key])
    arcs = {}
    for e in d["edges"]:
        if e["kind"] == "arc":
            arcs[frozenset(e["v"])] = e["point"]
    out = {}
    for blk in d["blocks"]:
        ids = [vid[i] for i in blk["v"]]
        cell = tuple(min(p[i] for p in ids) for i in range(3))
        for k, (c1, c2) in enumerate(bm.EDGES):
            a = k // 4
            item = blk["grading"][a] if blk["kind"] == "simpleGrading" else blk["grading"][k]
            v1, v2 = blk["v"][c1], blk["v"][c2]
            p1, p2 = np.array(d["vertices"][v1]["pos"]), np.array(d["vertices"][v2]["pos"])
            key = frozenset((v1, v2))
            if key in arcs:
                _, r, th = bm.circle_through(p1, arcs[key], p2)
                length = r * th
            else:
                length = float(np.linalg.norm(p2 - p1))
            secs = section_sizes_list(length, blk["counts"][a], item)
            i1, i2 = ids[c1], ids[c2]
            if i1 > i2:
                i1, i2 = i2, i1
                secs = [s[::-1] for s in reversed(secs)]
            out.setdefault((i1, i2), []).append((cell, secs, length))
    return out, d


def close(a, b, rel=1e-6):
    return math.isclose(a, b, rel_tol=rel, abs_tol=1e-12)


def run_case(case):
    if case.get("what") == "shape":
        return run_shape(case)
    violations = []
    outcomes = {}
    execs = 0
    nontrivial = 0
    for numbering in numberings(case["assembly"], case["tier"]):
        script, fam, subject_root = make_script(case, numbering)
        mesh, _ = gradlab.build_mesh(script)
        kind, payload = gradlab.write_and_observe(mesh)
        execs += 1
        coords = {k: case[k] for k in ("assembly", "dir", "geom", "kind", "preserve", "sections")}
        coords["numbering"] = numbering
        if case.get("overspec"):
            coords["overspec"] = True
        if case.get("twochop"):
            coords["twochop"] = True
        if kind != "ok":
            outcomes[f"{kind}:{payload}"] = outcomes.get(f"{kind}:{payload}", 0) + 1
            violations.append({"clause": "well-posed-chops-rejected", "coords": coords, "detail": f"{kind} {payload}"})
            continue
        edges, parsed = decode(payload, script)
        nontrivial += 1
        # the distribution is a function of the model: a second write() of the same mesh gives the same file
        # (numbers compared to rel 1e-9: the last digit of an expansion computed as 1/(1/x) is not another file)
        kind2, payload2 = gradlab.write_and_observe(mesh)
        if kind2 != "ok":
            violations.append({"clause": "second-write-differs", "coords": coords, "detail": f"the same mesh written again: {kind2} {payload2}"})
        elif payload2 != payload:
            p2 = gradlab.parse_ok(payload2)
            same = [b["v"] for b in p2["blocks"]] == [b["v"] for b in parsed["blocks"]] and all(
                b1["counts"] == b2["counts"]
                and b1["kind"] == b2["kind"]
                and len(b1["grading"]) == len(b2["grading"])
                and all(len(i1) == len(i2) and all(close(x, y, 1e-9) for s1, s2 in zip(i1, i2) for x, y in zip(s1, s2)) for i1, i2 in zip(b1["grading"], b2["grading"]))
                for b1, b2 in zip(parsed["blocks"], p2["blocks"])
            )
            if not same or p2["vertices"] != parsed["vertices"] or p2["edges"] != parsed["edges"]:
                violations.append({"clause": "second-write-differs", "coords": coords, "detail": "the same mesh written again gives other counts, gradings, vertices or edges"})
        # ... and after the vertices were moved (here: the whole assembly stretched along the subject direction) a
        # write() of the same mesh gives what a freshly assembled mesh with the same positions gives
        if case.get("rewrite"):
            g_ = case["dir"]

            def stretch(m):
                for v in m.vertices:
                    p = np.array(v.position)
                    p[g_] = p[g_] * 1.6 + 0.1 * p[(g_ + 1) % 3]
                    v.move_to(p)

            stretch(mesh)
            kind3, payload3 = gradlab.write_and_observe(mesh)
            fresh, _ = gradlab.build_mesh(script)
            fresh.assemble()
            stretch(fresh)
            kind4, payload4 = gradlab.write_and_observe(fresh)
            execs += 2
            if (kind3 == "ok") != (kind4 == "ok"):
                violations.append({"clause": "rewrite-after-move-differs-from-fresh", "coords": coords, "detail": f"the written mesh, stretched and written again: {kind3} {payload3 if kind3 != 'ok' else ''}; a fresh mesh with the same vertex positions: {kind4} {payload4 if kind4 != 'ok' else ''}"})
            elif kind3 == "ok":
                p3, p4 = gradlab.parse_ok(payload3), gradlab.parse_ok(payload4)
                same = all(
                    b1["counts"] == b2["counts"]
                    and b1["kind"] == b2["kind"]
                    and all(len(i1) == len(i2) and all(close(x, y, 1e-9) for s1, s2 in zip(i1, i2) for x, y in zip(s1, s2)) for i1, i2 in zip(b1["grading"], b2["grading"]))
                    for b1, b2 in zip(p3["blocks"], p4["blocks"])
                )
                if not same:
                    violations.append({"clause": "rewrite-after-move-differs-from-fresh", "coords": coords, "detail": "counts or gradings of the re-written mesh differ from those of a fresh mesh with the same vertex positions"})
        simple = sum(1 for b in parsed["blocks"] if b["kind"] == "simpleGrading")
        okey = f"ok:simple{simple}of{len(parsed['blocks'])}"
        outcomes[okey] = outcomes.get(okey, 0) + 1
        # (i) same physical sequence from every block on every shared edge
        for key, lst in edges.items():
            ref = lst[0][1]
            for cell, secs, _ in lst[1:]:
                same = len(secs) == len(ref) and all(len(x) == len(y) and all(close(p, q) for p, q in zip(x, y)) for x, y in zip(secs, ref))
                if not same:
                    violations.append(
                        {
                            "clause": "i-shared-edge-sequences-differ",
                            "coords": coords,
                            "detail": f"edge {key}: block at {lst[0][0]} -> {[[round(v, 6) for v in s] for s in ref]}, block at {cell} -> {[[round(v, 6) for v in s] for s in secs]}",
                        }
                    )
                    break
        # a GIVEN total expansion with the default preserve mode (count and cell-to-cell ratio are the same on every
        # edge the chop reaches): every edge of the subject family carries exactly that ratio between its last and first cell
        if case["sections"] == 1 and case["preserve"] == "c2c_expansion" and "total_expansion" in KINDS[case["kind"]] and not case.get("overspec"):
            g_ = case["dir"]
            members_ = {m for m in fam.parent if fam.find(m) == subject_root}
            cells_ = [tuple(c) for c in script["cells"]]
            want_T = KINDS[case["kind"]]["total_expansion"]
            for (i1, i2), lst in edges.items():
                if [i for i in range(3) if i1[i] != i2[i]] != [g_]:
                    continue
                for cell, secs, length in lst:
                    if (cells_.index(cell), g_) not in members_ or len(secs) != 1 or len(secs[0]) < 2:
                        continue
                    got_T = secs[0][-1] / secs[0][0]
                    if not (close(got_T, want_T, 1e-9) or close(got_T, 1.0 / want_T, 1e-9)):
                        violations.append({"clause": "given-total-expansion-not-written", "coords": coords, "detail": f"edge {(i1, i2)} of block at {cell}: last/first cell = {got_T:.9g}, the chop gives total_expansion={want_T}"})
                        break
                else:
                    continue
                break
        # (ii) preserved size realised on every edge of the subject family, at the geometrically same end
        pres = case["preserve"]
        g = case["dir"]
        if pres in ("start_size", "end_size"):
            members = {m for m in fam.parent if fam.find(m) == subject_root}
            cells = [tuple(c) for c in script["cells"]]
            user = subject_chops(case, (script["geometry"].get("size", (1, 1, 1)))[g])
            per_section = {}
            for (i1, i2), lst in edges.items():
                if [i for i in range(3) if i1[i] != i2[i]] != [g]:
                    continue
                for cell, secs, length in lst:
                    if (cells.index(cell), g) not in members:
                        continue
                    for k, s in enumerate(secs):
                        val = s[0] if pres == "start_size" else s[-1]
                        per_section.setdefault(k, []).append((val, (i1, i2), cell, length))
            for k, vals in per_section.items():
                if k < len(user) and user[k].get("preserve", "c2c_expansion") != pres:
                    continue
                given = user[k].get(pres) if k < len(user) else None
                ref = given if given is not None else vals[0][0]
                for val, e, cell, length in vals:
                    if not close(val, ref, 1e-6):
                        violations.append(
                            {
                                "clause": "ii-preserved-size-not-realised",
                                "coords": coords,
                                "detail": f"section {k}: {pres} on edge {e} (length {length:.6f}) of block at {cell} is {val:.6g}, expected {ref:.6g}" + (" (user value)" if given is not None else " (as on the first edge)"),
                            }
                        )
                        break
    return {"violations": violations, "outcomes": outcomes, "execs": execs, "nontrivial_n": nontrivial, "states": execs, "transitions": execs}


def render_replay(case, v):
    return f'''import sys; sys.path.insert(0, "/verif")
from mc import gradlab
from mc.props import c04
c04.worker_init()
case = {case!r}
script, fam, root = c04.make_script(case, {v["coords"]["numbering"]!r})
mesh, _ = gradlab.build_mesh(script)
kind, text = gradlab.write_and_observe(mesh)
print(kind); print(text[text.index("blocks"):text.index("faces")] if kind == "ok" else text)
'''
