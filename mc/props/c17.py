"""C17 - clamps stay on their manifold and links keep their relation (finite lattice)."""

from __future__ import annotations

import math

import numpy as np

from mc.domains import FRAMES, frame_apply, frame_vec, jitter_vec

ID = "C17"
LEVEL = "exploration"
DESIGN_REF = "DESIGN.md 5 C17"
RULE = (
    "case = (clamp or link type, frame with non-unit directions/normals and origins != 0); inside: creation positions on "
    "the manifold and 0.1 / 1.0 off it, every parameter value of a grid inside the bounds; links: leader moves of size "
    "1e-3, 0.1, 1, 10 in 3 directions (rotation links: turns by +-{1e-3, 0.1, 1, 2.5} rad about the axis). Reference: "
    "independent closest-point formulas for line/plane/circle, dense sampling for curves and surfaces; every clamp/link "
    "type built from float64 arrays that are changed in place afterwards (every subset) against an untouched twin. non-trivial = a "
    "distinct (type, frame, creation offset | parameter | move) evaluation"
    " Surface clamps with parameter boxes that differ between the two parameters."
)
ASSUMPTIONS = [
    "clamp creation runs scipy.optimize.minimize with tol = 1e-7: positions compared to 1e-5 x characteristic length",
    "rotation links are only defined for leaders that move around the axis (docstring); turns stay below pi",
]


def cases(tier, seed):
    frames = list(range(len(FRAMES))) if tier == "thorough" else sorted({0, 4, 1 + seed % 7})
    out = []
    for fr in frames:
        for what in ("line", "line_bounds", "plane", "radial", "radial_bounds", "curve_line", "curve_circle", "curve_fullcircle", "curve_interp", "surface", "free", "link_translation", "link_rotation", "link_symmetry", "inputs_mutated"):
            out.append({"what": what, "frame": fr})
    return out


def Pt(fr, p):
    return frame_apply(FRAMES[fr], [p])[0]


def Vc(fr, v):
    return frame_vec(FRAMES[fr], v)


def rot(v, n, ang):
    n = n / np.linalg.norm(n)
    return v * math.cos(ang) + np.cross(n, v) * math.sin(ang) + n * float(np.dot(n, v)) * (1 - math.cos(ang))


def run_case(case):
    import classy_blocks as cb

    fr = case["frame"]
    what = case["what"]
    violations = []
    execs = 0
    tol = 1e-5

    def bad(clause, detail, **kw):
        violations.append({"clause": clause, "coords": dict(case, **kw), "detail": detail})

    offsets = [0.0, 0.1, 1.0]
    if what.startswith("line"):
        p1, p2 = Pt(fr, [0.2, 0.1, 0.3]), Pt(fr, [2.2, 1.1, -0.7])
        d = float(np.linalg.norm(p2 - p1))
        u = (p2 - p1) / d
        bounds = None if what == "line" else (-0.5, 1.5)
        lo, hi = (0.0, d) if bounds is None else bounds
        side = np.cross(u, Vc(fr, [0.3, 0.2, 0.9]))
        side /= np.linalg.norm(side)
        for s in (0.1 * d, 0.5 * d, 0.9 * d):
            for off in offsets:
                pos = p1 + s * u + off * side
                execs += 1
                cl = cb.LineClamp(pos, p1, p2, bounds) if bounds else cb.LineClamp(pos, p1, p2)
                tt = min(max(s, lo), hi)
                want = p1 + tt * u
                if np.linalg.norm(cl.position - want) > tol * (1 + d):
                    bad("fresh-clamp-position", f"created at {pos.round(5).tolist()} -> {np.round(cl.position, 6).tolist()}, closest point of the line {want.round(6).tolist()}", s=round(s, 4), offset=off)
        # the same on a model 100 times larger, created up to 6 segment lengths off the line
        for scale in (1.0, 100.0):
            q1, q2 = p1 * scale, p2 * scale
            for s_ in (0.2 * d, 0.7 * d):
                for off in (0.5 * d, 3.0 * d, 6.0 * d):
                    pos = (p1 + s_ * u + off * side) * scale
                    execs += 1
                    cl = cb.LineClamp(pos, q1, q2, [b * scale for b in bounds]) if bounds else cb.LineClamp(pos, q1, q2)
                    tt = min(max(s_, lo), hi)
                    want = (p1 + tt * u) * scale
                    if np.linalg.norm(cl.position - want) > tol * (1 + d) * scale:
                        bad("fresh-clamp-position", f"scale {scale}: created {off * scale:.4g} off the line -> {np.round(cl.position, 5).tolist()}, closest point of the line {want.round(5).tolist()} (error {np.linalg.norm(cl.position - want):.3g})", s=round(s_, 4), offset=round(off, 4), scale=scale)
        cl = cb.LineClamp(p1 + 0.3 * d * u, p1, p2, bounds) if bounds else cb.LineClamp(p1 + 0.3 * d * u, p1, p2)
        for k in range(11):
            t = lo + (hi - lo) * k / 10
            cl.update_params([t])
            execs += 1
            want = p1 + t * u
            if np.linalg.norm(cl.position - want) > 1e-9 * (1 + d):
                bad("position-off-manifold", f"t={t}: {np.round(cl.position, 6).tolist()} vs {want.round(6).tolist()}", t=round(t, 4))
    elif what == "plane":
        p0 = Pt(fr, [0.5, -0.2, 0.4])
        n = Vc(fr, [1.0, 2.0, -0.5])
        nu = n / np.linalg.norm(n)
        for k in range(4):
            inpl = np.cross(nu, jitter_vec(k))
            for off in offsets:
                pos = p0 + 0.8 * inpl + off * nu
                execs += 1
                np.random.seed(k)
                cl = cb.PlaneClamp(pos, p0, n)
                want = pos - off * nu
                if np.linalg.norm(cl.position - want) > tol * 2:
                    bad("fresh-clamp-position", f"created at {pos.round(5).tolist()} -> {np.round(cl.position, 6).tolist()}, projection {want.round(6).tolist()}", k=k, offset=off)
        for scale in (1.0, 100.0):
            for k in range(3):
                inpl = np.cross(nu, jitter_vec(k + 4))
                for off in (0.5, 4.0):
                    pos = (p0 + 2.5 * inpl + off * nu) * scale
                    execs += 1
                    np.random.seed(k)
                    cl = cb.PlaneClamp(pos, p0 * scale, n)
                    want = pos - off * scale * nu
                    if np.linalg.norm(cl.position - want) > tol * 2 * scale:
                        bad("fresh-clamp-position", f"scale {scale}: created {off * scale} off the plane -> error {np.linalg.norm(cl.position - want):.3g}", k=k, offset=off, scale=scale)
        np.random.seed(7)
        cl = cb.PlaneClamp(p0 + np.cross(nu, jitter_vec(1)), p0, n)
        for a in (-3.0, -0.5, 0.0, 0.7, 10.0):
            for b in (-2.0, 0.0, 1.3):
                cl.update_params([a, b])
                execs += 1
                if abs(float(np.dot(cl.position - p0, nu))) > 1e-9 * (1 + abs(a) + abs(b)):
                    bad("position-off-manifold", f"params ({a},{b}): distance from the plane {float(np.dot(cl.position - p0, nu))}", a=a, b=b)
    elif what.startswith("radial"):
        c = Pt(fr, [0.3, 0.4, -0.2])
        n = Vc(fr, [0.5, -1.0, 2.0])
        nu = n / np.linalg.norm(n)
        e1 = np.cross(nu, jitter_vec(2))
        e1 /= np.linalg.norm(e1)
        for R in (0.05, 0.7, 3.0):
            pos = c + R * e1 + 0.4 * nu
            bounds = None if what == "radial" else [-0.5 * R, 1.0 * R]
            execs += 1
            cl = cb.RadialClamp(pos, c, n, bounds) if bounds else cb.RadialClamp(pos, c, n)
            if np.linalg.norm(cl.position - pos) > tol * (1 + R):
                bad("fresh-clamp-position", f"created at {pos.round(6).tolist()}, reports {np.round(cl.position, 6).tolist()}", R=R)
            lo, hi = (-2 * R, 2 * math.pi * R) if bounds is None else bounds
            for k in range(9):
                t = lo + (hi - lo) * k / 8
                cl.update_params([t])
                execs += 1
                p = cl.position
                rad = np.linalg.norm(np.cross(p - c, nu))
                h = float(np.dot(p - c, nu))
                want = c + rot(pos - c, nu, t / R)
                if abs(rad - R) > 1e-9 * (1 + R) or abs(h - 0.4) > 1e-9:
                    bad("position-off-manifold", f"t={t}: radius {rad} (expected {R}), height {h} (expected 0.4)", R=R, t=round(t, 4))
                elif np.linalg.norm(p - want) > 1e-8 * (1 + R):
                    bad("radial-parameter-not-arc-length", f"t={t}: {np.round(p, 6).tolist()}, expected the creation point turned by t/R: {want.round(6).tolist()}", R=R, t=round(t, 4))
    elif what.startswith("curve"):
        R_ = FRAMES[fr][0]
        if what == "curve_line":
            curve = cb.LineCurve(Pt(fr, [0.1, 0.2, 0.3]), Pt(fr, [1.5, -0.4, 0.9]), (0, 1))
        elif what == "curve_circle":
            curve = cb.CircleCurve(Pt(fr, [0.5, 0.5, 0.2]), Pt(fr, [1.7, 0.5, 0.2]), Vc(fr, [0, 0, 2.0]), (0, 5.0))
        elif what == "curve_fullcircle":
            # a closed curve (default bounds): its end point is its start point
            curve = cb.CircleCurve(Pt(fr, [0.5, 0.5, 0.2]), Pt(fr, [1.7, 0.5, 0.2]), Vc(fr, [0.3, -0.2, 2.0]))
        else:
            curve = cb.LinearInterpolatedCurve(frame_apply(FRAMES[fr], [[0, 0, 0], [0.3, 0.1, 0], [1.0, 0.5, 0.2], [1.2, 1.5, 0.3]]))
        lo, hi = curve.bounds
        ts = [lo + (hi - lo) * i / 1000 for i in range(1001)]
        dense = np.array([curve.get_point(t) for t in ts])
        L = float(curve.length)
        for q in (0.2, 0.55, 0.8) + ((0.003, 0.997) if what == "curve_fullcircle" else ()):
            base = np.array(curve.get_point(lo + (hi - lo) * q))
            for off in (0.0, 0.02 * L, 0.1 * L):
                pos = base + off * jitter_vec(int(q * 10))
                execs += 1
                cl = cb.CurveClamp(pos, curve)
                dmin = float(np.min(np.linalg.norm(dense - pos, axis=1)))
                dcl = float(np.linalg.norm(cl.position - pos))
                on_curve = float(np.min(np.linalg.norm(dense - cl.position, axis=1)))
                if dcl > dmin + 1e-4 * (1 + L):
                    bad("fresh-clamp-position", f"clamp position is {dcl:.6g} from the creation point, a sampled curve point is at {dmin:.6g}", q=q, offset=round(off, 4))
                if on_curve > 2e-3 * (1 + L):
                    bad("position-off-manifold", f"fresh clamp {on_curve:.4g} away from the curve", q=q, offset=round(off, 4))
        if what == "curve_line":
            # a model in millimetres: a vertex exactly on a curve 100 long must be reported within the tolerance the
            # optimizer uses to find the clamp's vertex (TOL = 1e-7), or the clamp cannot be added at all
            long_curve = cb.LineCurve(Pt(fr, [0, 0, 0]), Pt(fr, [100.0, 0, 0]), (0, 1))
            for x in (44.1, 0.7, 99.3, 12.345678):
                execs += 1
                pos = np.array(long_curve.get_point(x / 100.0))
                cl = cb.CurveClamp(pos, long_curve)
                if np.linalg.norm(cl.position - pos) > 1e-7:
                    bad("fresh-clamp-position", f"created exactly on a line curve of length 100 at x={x}: reported {np.linalg.norm(cl.position - pos):.3g} away (junctions are matched within 1e-7)", x=x)
        if what == "curve_circle":
            # a helix in models of three sizes (parameter = angle, not a length), created exactly on it with a starting
            # parameter that is near, not at, the answer
            for size in (2e-3, 1.0, 2e3):
                helix = cb.AnalyticCurve(lambda t, size=size: np.array(Pt(fr, [0, 0, 0])) * size + size * (R_ @ np.array([math.cos(t), math.sin(t), 0.1 * t])), (0.0, 6.0))
                for t0 in (1.23, 3.4, 5.1):
                    for dt in (None, -0.02, 0.3):
                        execs += 1
                        pos = np.array(helix.get_point(t0))
                        cl = cb.CurveClamp(pos, helix) if dt is None else cb.CurveClamp(pos, helix, t0 + dt)
                        err = float(np.linalg.norm(cl.position - pos))
                        if err > 1e-5 * size:
                            bad("fresh-clamp-position", f"model size {size}: created exactly on a helix at t={t0} with starting parameter {None if dt is None else t0 + dt}: reports a point {err:.3g} away", t=t0, size=size, dt=dt)
        cl = cb.CurveClamp(np.array(curve.get_point(lo + 0.3 * (hi - lo))), curve)
        for k in range(11):
            t = lo + (hi - lo) * k / 10
            cl.update_params([t])
            execs += 1
            if np.linalg.norm(cl.position - curve.get_point(t)) > 1e-9 * (1 + L):
                bad("position-off-manifold", f"t={t}", t=round(t, 4))
    elif what == "surface":
        R, tr = FRAMES[fr]

        def surf(p):
            return R @ np.array([p[0], p[1], 0.3 * p[0] ** 2 + 0.2 * p[1] ** 2]) + tr

        grid = [(-1 + 2 * i / 60, -1 + 2 * j / 60) for i in range(61) for j in range(61)]
        dense = np.array([surf(g) for g in grid])
        for uv in ((0.2, -0.3), (-0.6, 0.5), (0.0, 0.0)):
            base = surf(uv)
            for off in offsets[:2]:
                pos = base + off * (R @ np.array([0.1, -0.1, 1.0]))
                execs += 1
                cl = cb.ParametricSurfaceClamp(pos, surf, [[-1, 1], [-1, 1]], list(uv))
                dmin = float(np.min(np.linalg.norm(dense - pos, axis=1)))
                dcl = float(np.linalg.norm(cl.position - pos))
                if dcl > dmin + 1e-4:
                    bad("fresh-clamp-position", f"clamp position is {dcl:.6g} from the creation point, a sampled surface point is at {dmin:.6g}", uv=list(uv), offset=off)
            cl = cb.ParametricSurfaceClamp(base, surf, [[-1, 1], [-1, 1]], list(uv))
            for a in (-1.0, -0.3, 0.4, 1.0):
                for b in (-1.0, 0.1, 1.0):
                    cl.update_params([a, b])
                    execs += 1
                    if np.linalg.norm(cl.position - surf((a, b))) > 1e-12:
                        bad("position-off-manifold", f"params ({a},{b})", a=a, b=b)
        # the same surface in a model 1000 times smaller / larger (parameters unchanged), created exactly on it with a
        # starting guess that is not the answer (the default one, and one near it)
        for size in (1e-3, 1.0, 1e3):
            surf_s = lambda p, size=size: size * surf(p)  # noqa: E731
            for uv in ((0.2, -0.3), (-0.6, 0.5), (0.06, 0.04)):
                pos = surf_s(uv)
                for guess in (None, [0.0, 0.0], [uv[0] + 0.05, uv[1] - 0.04]):
                    execs += 1
                    if guess is None:
                        cl = cb.ParametricSurfaceClamp(pos, surf_s, [[-1, 1], [-1, 1]])
                    else:
                        cl = cb.ParametricSurfaceClamp(pos, surf_s, [[-1, 1], [-1, 1]], guess)
                    err = float(np.linalg.norm(cl.position - pos))
                    if err > 1e-5 * size:
                        bad("fresh-clamp-position", f"model size {size}: created exactly on the surface at uv={uv} with starting guess {guess}: reports a point {err:.3g} away", uv=list(uv), size=size, guess=guess)
        # parameter ranges that differ between the two parameters (descending, nested, disjoint, negative): the same
        # surface re-parametrised so that [-1, 1]^2 maps to the given box
        for bi, box in enumerate(([[2, 5], [0, 1]], [[0, 10], [2, 5]], [[-3, -1], [4, 6]], [[0, 1], [2, 5]], [[-7, 7], [-0.5, 0.25]])):
            (u0, u1), (v0, v1) = box

            def surf_b(p, u0=u0, u1=u1, v0=v0, v1=v1):
                return surf((-1 + 2 * (p[0] - u0) / (u1 - u0), -1 + 2 * (p[1] - v0) / (v1 - v0)))

            for fu, fv in ((0.6, 0.35), (0.2, 0.75), (0.5, 0.5)):
                uv = (u0 + fu * (u1 - u0), v0 + fv * (v1 - v0))
                pos = surf_b(uv)
                for guess in ([uv[0], uv[1]], [uv[0] + 0.02 * (u1 - u0), uv[1] - 0.02 * (v1 - v0)]):
                    execs += 1
                    cl = cb.ParametricSurfaceClamp(pos, surf_b, box, guess)
                    err = float(np.linalg.norm(cl.position - pos))
                    if err > 1e-5:
                        bad("fresh-clamp-position", f"bounds {box}: created exactly on the surface at uv={uv} with starting guess {guess}: reports a point {err:.3g} away", box=bi, uv=[fu, fv])
                    prm = np.asarray(cl.params, dtype=float)
                    if not (u0 - 1e-9 <= prm[0] <= u1 + 1e-9 and v0 - 1e-9 <= prm[1] <= v1 + 1e-9):
                        bad("fresh-clamp-outside-bounds", f"bounds {box}: parameters {prm.tolist()}", box=bi, uv=[fu, fv])
    elif what == "inputs_mutated":
        # the declared constraint is the one given at construction: every clamp/link is built twice from float64 arrays,
        # the arrays given to the first one are then changed in place (every non-empty subset of them), and both must
        # keep answering alike
        import itertools

        def makers():
            a = lambda v: np.array(v, dtype=float)  # noqa: E731
            yield "LineClamp", [a(Pt(fr, [0.8, 0.4, 0.0])), a(Pt(fr, [0.2, 0.1, 0.3])), a(Pt(fr, [2.2, 1.1, -0.7]))], lambda x: cb.LineClamp(x[0], x[1], x[2]), [[0.3], [1.7]]
            yield "LineClamp(bounds)", [a(Pt(fr, [0.8, 0.4, 0.0])), a(Pt(fr, [0.2, 0.1, 0.3])), a(Pt(fr, [2.2, 1.1, -0.7]))], lambda x: cb.LineClamp(x[0], x[1], x[2], (-0.5, 1.5)), [[0.3], [1.2]]
            yield "PlaneClamp", [a(Pt(fr, [0.9, 0.1, 0.4])), a(Pt(fr, [0.5, -0.2, 0.4])), a(Vc(fr, [1.0, 2.0, -0.5]))], lambda x: cb.PlaneClamp(x[0], x[1], x[2]), [[0.4, -0.7], [2.0, 1.0]]
            yield "RadialClamp", [a(Pt(fr, [1.0, 0.4, 0.2])), a(Pt(fr, [0.3, 0.4, -0.2])), a(Vc(fr, [0.5, -1.0, 2.0]))], lambda x: cb.RadialClamp(x[0], x[1], x[2]), [[0.3], [-1.1]]
            yield "FreeClamp", [a(Pt(fr, [0.3, 0.7, -1.1]))], lambda x: cb.FreeClamp(x[0]), []
            yield "CurveClamp", [a(Pt(fr, [0.5, 0.0, 0.5]))], lambda x: cb.CurveClamp(x[0], cb.LineCurve(Pt(fr, [0.1, 0.2, 0.3]), Pt(fr, [1.5, -0.4, 0.9]), (0, 1))), [[0.2], [0.9]]
            yield "TranslationLink", [a(Pt(fr, [1.0, 0.5, 0.25])), a(Pt(fr, [-0.4, 1.3, 0.9]))], lambda x: cb.TranslationLink(x[0], x[1]), None
            yield "RotationLink", [a(Pt(fr, [1.0, 0.5, 0.25])), a(Pt(fr, [-0.4, 1.3, 0.9])), a(Vc(fr, [0.3, -0.6, 2.0])), a(Pt(fr, [0.2, 0.1, -0.3]))], lambda x: cb.RotationLink(x[0], x[1], x[2], x[3]), None
            yield "SymmetryLink", [a(Pt(fr, [1.0, 0.5, 0.25])), a(Pt(fr, [-0.4, 1.3, 0.9])), a(Vc(fr, [1.5, 0.5, -1.0])), a(Pt(fr, [0.2, 0.1, -0.3]))], lambda x: cb.SymmetryLink(x[0], x[1], x[2], x[3]), None

        for name, args, make, params in makers():
            n = len(args)
            for subset in [c for k in range(1, n + 1) for c in itertools.combinations(range(n), k)]:
                execs += 1
                np.random.seed(3)
                mine = [x.copy() for x in args]
                np.random.seed(3)
                obj = make(mine)
                np.random.seed(3)
                twin = make([x.copy() for x in args])
                for i in subset:
                    mine[i] += np.array([0.37, -0.81, 0.55])
                try:
                    if params is not None:
                        obs = [(np.array(obj.position), np.array(twin.position))]
                        for pr in params:
                            obj.update_params(list(pr))
                            twin.update_params(list(pr))
                            obs.append((np.array(obj.position), np.array(twin.position)))
                    else:
                        obs = []
                        for k in range(2):
                            if name == "RotationLink":
                                new = args[3] + rot(args[0] - args[3], args[2], 0.6 * (k + 1))
                            else:
                                new = args[0] + 0.4 * (k + 1) * jitter_vec(k + 1)
                            obj.leader = np.array(new)
                            twin.leader = np.array(new)
                            obj.update()
                            twin.update()
                            obs.append((np.array(obj.follower), np.array(twin.follower)))
                except Exception as err:
                    bad("inputs-mutated-raised", f"{type(err).__name__}: {err}", type=name, mutated=list(subset))
                    continue
                worst = max(float(np.linalg.norm(x - y)) for x, y in obs)
                if worst > 1e-9:
                    bad("declared-constraint-follows-callers-array", f"{name}: after the arrays {list(subset)} given to the constructor were changed in place, the object answers {worst:.3g} away from an identical object whose arguments were left alone", type=name, mutated=list(subset))
    elif what == "free":
        pos = Pt(fr, [0.3, 0.7, -1.1])
        cl = cb.FreeClamp(pos)
        execs += 1
        if np.linalg.norm(cl.position - pos) > 1e-6:
            bad("fresh-clamp-position", f"{np.round(cl.position, 7).tolist()} vs {pos.tolist()}")
        for k in range(4):
            p = pos + jitter_vec(k) * 0.5
            cl.update_params(p)
            execs += 1
            if np.linalg.norm(cl.position - p) > 1e-12:
                bad("position-off-manifold", "free clamp position differs from its parameters", k=k)
    else:
        leader0 = Pt(fr, [1.0, 0.5, 0.25])
        follower0 = Pt(fr, [-0.4, 1.3, 0.9])
        axis = Vc(fr, [0.3, -0.6, 2.0])
        origin = Pt(fr, [0.2, 0.1, -0.3])
        normal = Vc(fr, [1.5, 0.5, -1.0])
        if what == "link_translation":
            link = cb.TranslationLink(leader0, follower0)
        elif what == "link_rotation":
            link = cb.RotationLink(leader0, follower0, axis, origin)
        else:
            link = cb.SymmetryLink(leader0, follower0, normal, origin)
        if what == "link_symmetry":
            # creation must not alter the leader either
            if not np.array_equal(link.leader, leader0):
                bad("link-alters-leader", f"leader after creation {link.leader.tolist()} vs {leader0.tolist()}")
        moves = []
        if what == "link_rotation":
            for ang in (1e-3, 0.1, 1.0, 2.5, -1e-3, -0.1, -1.0, -2.5):
                moves.append(("turn", ang, origin + rot(leader0 - origin, axis, ang)))
        else:
            for mag in (1e-3, 0.1, 1.0, 10.0):
                for k in range(3):
                    moves.append(("move", mag, leader0 + mag * jitter_vec(k + 1)))
        if what == "link_rotation":
            # a follower far from the axis, leader turns from tiny to large: the follower turns by the same angle
            far0 = origin + 40.0 * (follower0 - origin)
            far = cb.RotationLink(leader0, far0, axis, origin)
            for ang in (1e-9, 1e-8, 3e-8, 1e-6, 1e-3, 1.0, math.pi - 2e-8, -1e-8, -3e-8, -2.0):
                execs += 1
                far.leader = np.array(origin + rot(leader0 - origin, axis, ang))
                far.update()
                want = origin + rot(far0 - origin, axis, ang)
                err = float(np.linalg.norm(far.follower - want))
                if err > 1e-9 * float(np.linalg.norm(far0 - origin)):
                    bad("follower-relation", f"leader turned by {ang}: follower is {err:.3g} away from the original follower turned by the same angle (it is {np.linalg.norm(far0 - origin):.3g} from the axis origin)", move="turn-far", amount=ang)
        for kind, amount, new_leader in moves:
            execs += 1
            arr = np.array(new_leader)
            keep = arr.copy()
            link.leader = arr
            link.update()
            if not np.array_equal(arr, keep):
                bad("link-alters-leader", f"leader {keep.tolist()} became {arr.tolist()} during update()", move=kind, amount=amount)
            if what == "link_translation":
                want = keep + (follower0 - leader0)
            elif what == "link_rotation":
                want = origin + rot(follower0 - origin, axis, amount)
            else:
                nu = normal / np.linalg.norm(normal)
                want = keep - 2 * float(np.dot(keep - origin, nu)) * nu
            if np.linalg.norm(link.follower - want) > 1e-8 * (1 + abs(amount)):
                bad("follower-relation", f"leader {kind} {amount}: follower {np.round(link.follower, 7).tolist()}, expected {np.round(want, 7).tolist()}", move=kind, amount=amount)
    return {"violations": violations, "outcome": what, "execs": execs, "nontrivial_n": execs, "states": 1, "transitions": execs}
