"""C09 - transforming or copying an entity equals transforming its output geometry."""

from __future__ import annotations

import itertools
import math
import os
import re

import numpy as np

from mc import foamdict, runner

ID = "C09"
LEVEL = "model_checking"
DESIGN_REF = "DESIGN.md 5 C09"
RULE = (
    "programs = (entity from a table of every transformable entity type carrying every edge kind it can carry) x all "
    "sequences of <= k transformations from {translate, rotate(origin given|default), scale(origin given|default), "
    "mirror(origin given|default)} in method form and in transformation-list form; differential oracle without expected "
    "values: geometry produced by the transformed entity (assembled in a fresh Mesh: vertices, written arc points, "
    "spline/polyLine points, wire lengths; or defining points for non-additive entities) == affine map applied to the "
    "geometry of the untransformed entity, as unlabelled geometry; plus copy() equivalence/independence and purity of the "
    "helpers; plus, for every constructor that takes a coordinate array, two entities built from ONE float64 array (or a view "
    "of it) with every transformation and ordered pair applied to one of them: the array and the other entity stay put. "
    "non-trivial = every (entity, sequence) pair"
    " Disk-like sketches and shapes extruded from them; both forms for a default-origin second step."
)
ASSUMPTIONS = [
    "default origins as documented: rotate/scale about entity.center, mirror about [0,0,0]",
    "geometry compared unlabelled (vertices matched by position): Operation.mirror legitimately swaps top and bottom face",
    "analytic function curves are documented as not transformable and are excluded",
]

TOL = 1e-6


# ----------------------------------------------------------------------------
# transformations
def rot_matrix(axis, angle):
    axis = np.asarray(axis, float)
    axis = axis / np.linalg.norm(axis)
    x, y, z = axis
    c, s = math.cos(angle), math.sin(angle)
    C = 1 - c
    return np.array(
        [
            [c + x * x * C, x * y * C - z * s, x * z * C + y * s],
            [y * x * C + z * s, c + y * y * C, y * z * C - x * s],
            [z * x * C - y * s, z * y * C + x * s, c + z * z * C],
        ]
    )


TRANSFORMS = {
    "translate": {"kind": "translate", "d": (0.7, -1.2, 0.4)},
    "rotate_o": {"kind": "rotate", "angle": 0.8, "axis": (1.0, 2.0, 3.0), "origin": (0.5, -0.3, 1.1)},
    "rotate_c": {"kind": "rotate", "angle": -1.9, "axis": (0.0, -2.0, 1.0), "origin": None},
    "scale_o": {"kind": "scale", "ratio": 0.5, "origin": (1.0, 1.0, -2.0)},
    "scale_c": {"kind": "scale", "ratio": 2.0, "origin": None},
    "mirror_o": {"kind": "mirror", "normal": (1.0, -2.0, 0.5), "origin": (0.3, 0.8, -0.6)},
    "mirror_0": {"kind": "mirror", "normal": (0.0, 0.0, 3.0), "origin": None},
}


def affine_of(t, centre):
    """(L, b, ratio) with x -> L x + b for transformation t applied to an entity whose centre is `centre`"""
    k = t["kind"]
    if k == "translate":
        return np.eye(3), np.array(t["d"], float), 1.0
    if k == "rotate":
        o = np.array(t["origin"] if t["origin"] is not None else centre, float)
        L = rot_matrix(t["axis"], t["angle"])
        return L, o - L @ o, 1.0
    if k == "scale":
        o = np.array(t["origin"] if t["origin"] is not None else centre, float)
        return np.eye(3) * t["ratio"], o - t["ratio"] * o, t["ratio"]
    if k == "mirror":
        o = np.array(t["origin"] if t["origin"] is not None else (0, 0, 0), float)
        n = np.array(t["normal"], float)
        n = n / np.linalg.norm(n)
        L = np.eye(3) - 2 * np.outer(n, n)
        return L, o - L @ o, 1.0
    raise AssertionError(k)


def apply_method(e, t):
    k = t["kind"]
    if k == "translate":
        return e.translate(list(t["d"]))
    if k == "rotate":
        return e.rotate(t["angle"], list(t["axis"]), list(t["origin"]) if t["origin"] is not None else None)
    if k == "scale":
        return e.scale(t["ratio"], list(t["origin"]) if t["origin"] is not None else None)
    return e.mirror(list(t["normal"]), list(t["origin"]) if t["origin"] is not None else None)


def apply_list(e, ts):
    import classy_blocks as cb

    lst = []
    for t in ts:
        k = t["kind"]
        if k == "translate":
            lst.append(cb.Translation(list(t["d"])))
        elif k == "rotate":
            lst.append(cb.Rotation(list(t["axis"]), t["angle"], list(t["origin"]) if t["origin"] is not None else None))
        elif k == "scale":
            lst.append(cb.Scaling(t["ratio"], list(t["origin"]) if t["origin"] is not None else None))
        else:
            lst.append(cb.Mirror(list(t["normal"]), list(t["origin"]) if t["origin"] is not None else None))
    return e.transform(lst)


# ----------------------------------------------------------------------------
# entities
def _face_with_edges():
    import classy_blocks as cb

    pts = [[0.2, 0.1, 0.0], [1.4, 0.0, 0.1], [1.5, 1.1, 0.0], [0.1, 1.2, -0.1]]
    return cb.Face(
        pts,
        [
            cb.Arc([0.8, -0.2, 0.05]),
            cb.Spline([[1.55, 0.3, 0.1], [1.6, 0.6, 0.15], [1.55, 0.9, 0.05]]),
            cb.PolyLine([[1.2, 1.3, 0.0], [0.7, 1.35, 0.1], [0.4, 1.25, 0.0]]),
            cb.Origin([2.5, 0.6, 0.0]),
        ],
    )


def _plain_assembly():
    import classy_blocks as cb
    from classy_blocks.construct.assemblies.assembly import Assembly

    c1 = cb.Cylinder([0.2, 0.1, 0.3], [0.2, 0.1, 1.5], [0.9, 0.1, 0.3])
    return Assembly([c1, cb.Cylinder.chain(c1, 0.8)])


def entity_table():
    import classy_blocks as cb

    def loft_edges():
        f1 = _face_with_edges()
        f2 = cb.Face([[0.2, 0.1, 1.0], [1.4, 0.0, 1.1], [1.5, 1.1, 0.9], [0.1, 1.2, 1.0]])
        loft = cb.Loft(f1, f2)
        loft.add_side_edge(0, cb.Arc([0.0, 0.0, 0.5]))
        loft.add_side_edge(1, cb.Spline([[1.5, -0.1, 0.3], [1.55, -0.12, 0.6]]))
        loft.add_side_edge(2, cb.PolyLine([[1.6, 1.2, 0.3], [1.62, 1.22, 0.7]]))
        loft.add_side_edge(3, cb.Origin([0.1, 3.0, 0.45]))
        loft.project_side("top", "terrain", edges=True, points=True)
        return loft

    def base_face():
        return cb.Face([[1.0, 0.2, 0.0], [2.0, 0.2, 0.0], [2.0, 1.2, 0.1], [1.0, 1.0, 0.0]])

    def oncurve_loft():
        curve = cb.LinearInterpolatedCurve([[-0.5, -0.3, 0], [0, 0, 0], [0.4, -0.2, 0.1], [1.0, 0.0, 0.0], [1.5, 0.4, 0]])
        f1 = cb.Face([[0, 0, 0], [1, 0, 0], [1, 1, 0], [0, 1, 0]], [cb.OnCurve(curve, n_points=5), None, None, None])
        return cb.Extrude(f1, [0.1, 0.0, 1.0])

    def loft_shared_angle():
        # the user re-uses ONE Angle object for the four side edges (and one Origin object on two face edges)
        f1 = cb.Face([[1.0, 0.2, 0.0], [2.0, 0.2, 0.0], [2.0, 1.2, 0.1], [1.0, 1.0, 0.0]])
        f2 = f1.copy().rotate(0.9, [0.1, 1.0, 0.0], [0.2, 0.0, 0.1])
        loft = cb.Loft(f1, f2)
        shared = cb.Angle(0.9, [0.1, 1.0, 0.0])
        for i in range(4):
            loft.add_side_edge(i, shared)
        return loft

    def loft_shared_across_faces():
        # ONE Angle object on the lower and the upper edge 0-1 / 4-5, ONE Arc... no: one Origin object on a face edge
        # and on a side edge (all describe circles about the same axis / centre)
        a = 1.0
        quad = lambda z: [[1, 0, z], [2, 0, z], [2 * math.cos(a), 2 * math.sin(a), z], [math.cos(a), math.sin(a), z]]  # noqa: E731
        arc = cb.Angle(a, [0, 0, 1])
        bottom, top = cb.Face(quad(0.0)), cb.Face(quad(1.0))
        bottom.add_edge(1, arc)
        top.add_edge(1, arc)
        inner = cb.Angle(a, [0, 0, 2.0])
        bottom.add_edge(3, cb.Angle(-a, [0, 0, 1]))
        loft = cb.Loft(bottom, top)
        top.add_edge(3, inner)
        return loft

    def face_shared_curve():
        # two consecutive edges snapped to ONE curve object (the normal use of OnCurve)
        c = cb.CircleCurve([0, 0, 0], [1, 0, 0], [0, 0, 1], (0, math.pi / 2))
        pt = lambda t: [math.cos(t), math.sin(t), 0.0]  # noqa: E731
        f = cb.Face([pt(0), pt(math.pi / 4), pt(math.pi / 2), [0.2, 0.2, 0]])
        f.add_edge(0, cb.OnCurve(c, n_points=3))
        f.add_edge(1, cb.OnCurve(c, n_points=3))
        return f

    def sketch_shared_curve():
        # the lower edges of two faces in a row lie on ONE curve (consecutive edges on one curve: the normal use of OnCurve)
        curve = cb.LinearInterpolatedCurve([[0, 0, 0], [0.5, -0.2, 0], [1, -0.3, 0], [1.5, -0.2, 0], [2, 0, 0]])
        sk = cb.MappedSketch([[0, 0, 0], [1, -0.3, 0], [2, 0, 0], [2, 1, 0], [1, 1, 0], [0, 1, 0]], [[0, 1, 4, 5], [1, 2, 3, 4]])
        for face in sk.faces:
            face.add_edge(0, cb.OnCurve(curve, n_points=3))
        return sk

    def face_shared_origin():
        o = cb.Origin([0.5, 0.5, 0.0])
        return cb.Face([[0, 0, 0], [1, 0, 0], [1, 1, 0], [0, 1, 0]], [o, None, o, None])

    ent = {
        "Point": ("points", lambda: cb.construct.point.Point([0.3, -0.4, 1.2]) if hasattr(cb, "construct") else None),
        "Face": ("face", _face_with_edges),
        "FaceAngle": ("face", lambda: cb.Face([[0, 0, 0], [1, 0, 0], [1, 1, 0], [0, 1, 0]], [cb.Angle(0.7, [0, 0, 2.0]), None, cb.Angle(-0.5, [0.2, 0.1, 1.0]), None])),
        "DiscreteCurve": ("curve", lambda: cb.DiscreteCurve([[0, 0, 0], [0.3, 0.1, 0], [1.0, 0.5, 0.2], [1.2, 1.5, 0.3]])),
        "LinearInterpolatedCurve": ("curve", lambda: cb.LinearInterpolatedCurve([[0, 0, 0], [0.3, 0.1, 0], [1.0, 0.5, 0.2], [1.2, 1.5, 0.3]])),
        "SplineInterpolatedCurve": ("curve", lambda: cb.SplineInterpolatedCurve([[0, 0, 0], [0.3, 0.1, 0], [1.0, 0.5, 0.2], [1.2, 1.5, 0.3], [1.0, 2.0, 0.5]])),
        "LineCurve": ("curve", lambda: cb.LineCurve([0.1, 0.2, 0.3], [1.0, -0.5, 0.8])),
        "CircleCurve": ("curve", lambda: cb.CircleCurve([0.5, 0.5, 0.2], [1.5, 0.5, 0.2], [0, 0, 2.0], (0, 3.0))),
        "LoftEdges": ("additive", loft_edges),
        "Extrude": ("additive", lambda: cb.Extrude(_face_with_edges(), [0.2, -0.1, 0.9])),
        "Revolve": ("additive", lambda: cb.Revolve(base_face(), 0.9, [0.1, 1.0, 0.0], [0.2, 0.0, 0.1])),
        "Wedge": ("additive", lambda: cb.Wedge(cb.Face([[0, 0.5, 0], [1, 0.5, 0], [1, 1.2, 0], [0, 1.0, 0]]), 0.2)),
        "OnCurveLoft": ("additive", oncurve_loft),
        "LoftSharedAngle": ("additive", loft_shared_angle),
        "LoftSharedAcrossFaces": ("additive", loft_shared_across_faces),
        "FaceSharedOrigin": ("face", face_shared_origin),
        "FaceSharedCurve": ("face", face_shared_curve),
        "ExtrudeSharedCurve": ("additive", lambda: cb.Extrude(face_shared_curve(), [0.1, 0.0, 0.5])),
        "SketchSharedCurve": ("sketch", sketch_shared_curve),
        "ExtrudedShapeSharedCurve": ("additive", lambda: cb.ExtrudedShape(sketch_shared_curve(), [0.1, 0.0, 1.0])),
        # operations with corners that coincide (distinct Point objects at one position): a wedge whose face touches the
        # axis, a loft to a collapsed top face
        "WedgeOnAxis": ("additive", lambda: cb.Wedge(cb.Face([[0, 0, 0], [1, 0, 0], [1, 0.7, 0], [0, 0.5, 0]]), 0.2)),
        "LoftCollapsedTop": ("additive", lambda: cb.Loft(cb.Face([[0, 0, 0], [1, 0, 0], [1, 1, 0], [0, 1, 0]]), cb.Face([[0.2, 0.2, 1], [0.8, 0.2, 1], [0.8, 0.2, 1], [0.2, 0.2, 1]]))),
        "Box": ("additive", lambda: cb.Box([0.1, 0.2, 0.3], [1.1, 0.9, 1.5])),
        "Grid": ("sketch", lambda: cb.Grid([0, 0, 0], [2, 1, 0], 2, 1)),
        "OneCoreDisk": ("sketch", lambda: cb.OneCoreDisk([0.2, 0.1, 0.0], [1.2, 0.1, 0.0], [0, 0, 1])),
        "FourCoreDisk": ("sketch", lambda: cb.FourCoreDisk([0.2, 0.1, 0.0], [1.2, 0.1, 0.0], [0, 0, 1])),
        "ExtrudedShape": ("additive", lambda: cb.ExtrudedShape(cb.OneCoreDisk([0.2, 0.1, 0.0], [1.2, 0.1, 0.0], [0, 0, 1]), [0.1, 0.0, 1.0])),
        # the other disk-like sketches, and a shape lofted from each (an object that several faces of the sketch hold
        # must move once, however many operations of the shape see it)
        "Oval": ("sketch", lambda: cb.Oval([0.2, 0.1, 0.0], [1.4, 0.3, 0.0], [0, 0, 1], 0.5)),
        "HalfDisk": ("sketch", lambda: cb.HalfDisk([0.2, 0.1, 0.0], [1.2, 0.1, 0.0], [0, 0, 1])),
        "WrappedDisk": ("sketch", lambda: cb.WrappedDisk([0.2, 0.1, 0.0], [1.2, 1.1, 0.0], 0.6, [0, 0, 1])),
        "ExtrudedOval": ("additive", lambda: cb.ExtrudedShape(cb.Oval([0.2, 0.1, 0.0], [1.4, 0.3, 0.0], [0, 0, 1], 0.5), [0.1, 0.0, 1.0])),
        "ExtrudedHalfDisk": ("additive", lambda: cb.ExtrudedShape(cb.HalfDisk([0.2, 0.1, 0.0], [1.2, 0.1, 0.0], [0, 0, 1]), [0.1, 0.0, 1.0])),
        "ExtrudedFourCoreDisk": ("additive", lambda: cb.ExtrudedShape(cb.FourCoreDisk([0.2, 0.1, 0.0], [1.2, 0.1, 0.0], [0, 0, 1]), 0.8)),
        "ExtrudedWrappedDisk": ("additive", lambda: cb.ExtrudedShape(cb.WrappedDisk([0.2, 0.1, 0.0], [1.2, 1.1, 0.0], 0.6, [0, 0, 1]), 0.8)),
        "ExtrudedSplineDisk": ("additive", lambda: cb.ExtrudedShape(cb.SplineDisk([0.2, 0.1, 0.0], [1.2, 0.1, 0.0], [0.2, 1.3, 0.0], 0.2, 0.3), 0.8)),
        "Cylinder": ("additive", lambda: cb.Cylinder([0.2, 0.1, 0.3], [0.2, 0.1, 1.5], [0.9, 0.1, 0.3])),
        "Frustum": ("additive", lambda: cb.Frustum([0.2, 0.1, 0.3], [0.2, 0.1, 1.5], [0.9, 0.1, 0.3], 0.4, 0.8)),
        "Elbow": ("additive", lambda: cb.Elbow([0, 0, 0], [0.5, 0, 0], [0, 0, 1], 1.1, [2.0, 0, 0], [0, 1, 0], 0.4)),
        "ExtrudedRing": ("additive", lambda: cb.ExtrudedRing([0.2, 0.1, 0.3], [0.2, 0.1, 1.0], [1.0, 0.1, 0.3], 0.5, 6)),
        "RevolvedRing": ("additive", lambda: cb.RevolvedRing([0, 0, 0], [1, 0, 0], cb.Face([[0, 0.5, 0], [1, 0.5, 0], [1, 0.9, 0], [0, 1.0, 0]]), 5)),
        "Hemisphere": ("additive", lambda: cb.Hemisphere([0.2, 0.1, 0.3], [1.0, 0.1, 0.3], [0, 0, 1])),
        "ExtrudedStack": ("additive", lambda: cb.ExtrudedStack(cb.Grid([0, 0, 0], [2, 1, 0], 2, 1), 1.5, 2)),
        "RevolvedStack": ("additive", lambda: cb.RevolvedStack(cb.Grid([0, 1, 0], [2, 2, 0], 2, 1), 1.0, [1, 0, 0], [0, 0, 0], 2)),
        "TJoint": ("additive", lambda: cb.TJoint([0, 0, 0], [2, 0, 0], [0, 0.4, 0])),
        "RevolvedShape": ("additive", lambda: cb.RevolvedShape(cb.Grid([0, 1, 0], [2, 2, 0], 2, 1), 0.8, [1, 0, 0], [0, 0.2, 0])),
        "LoftedShapeMid": (
            "additive",
            lambda: cb.LoftedShape(
                cb.Grid([0, 0, 0], [2, 1, 0], 2, 1),
                cb.Grid([0, 0, 0], [2, 1, 0], 2, 1).translate([0.2, 0, 1.5]),
                cb.Grid([0, 0, 0], [2, 1, 0], 2, 1).translate([0.4, 0.1, 0.7]),
            ),
        ),
        "SemiCylinder": ("additive", lambda: cb.SemiCylinder([0.2, 0.1, 0.3], [0.2, 0.1, 1.5], [0.9, 0.1, 0.3])),
        "TransformedStack": (
            "additive",
            lambda: cb.TransformedStack(
                cb.Grid([0, 0, 0], [2, 1, 0], 2, 1),
                [cb.Translation([0, 0, 0.7]), cb.Rotation([0, 0, 1], 0.3, [0, 0, 0])],
                2,
                [cb.Translation([0, 0, 0.35]), cb.Rotation([0, 0, 1], 0.15, [0, 0, 0])],
            ),
        ),
        "LJoint": ("additive", lambda: cb.LJoint([0, 0, 0], [2, 0, 0], [0, 0.4, 0])),
        # bare edge data ("edge data" of the statement) and a plain Assembly of two shapes
        "ArcData": ("edgedata", lambda: cb.Arc([0.5, -0.2, 0.1])),
        "OriginData": ("edgedata", lambda: cb.Origin([0.5, 0.5, 0.1])),
        "AngleData": ("edgedata", lambda: cb.Angle(0.7, [0.2, 0.1, 2.0])),
        "SplineData": ("edgedata", lambda: cb.Spline([[0.3, -0.2, 0.0], [0.6, -0.25, 0.1], [0.8, -0.1, 0.0]])),
        "PolyLineData": ("edgedata", lambda: cb.PolyLine([[0.3, -0.2, 0.0], [0.6, -0.25, 0.1], [0.8, -0.1, 0.0]])),
        "OnCurveData": ("edgedata", lambda: cb.OnCurve(cb.LinearInterpolatedCurve([[-0.5, -0.3, 0], [0, 0, 0], [0.4, -0.2, 0.1], [1.0, 0.0, 0.0]]))),
        "Assembly": ("additive", _plain_assembly),
    }
    from classy_blocks.construct.point import Point

    ent["Point"] = ("points", lambda: Point([0.3, -0.4, 1.2]))
    return ent


CHEAP = ["Point", "Face", "FaceAngle", "LoftSharedAngle", "LoftSharedAcrossFaces", "FaceSharedCurve", "ExtrudeSharedCurve", "SketchSharedCurve", "WedgeOnAxis", "LoftCollapsedTop", "FaceSharedOrigin", "DiscreteCurve", "LinearInterpolatedCurve", "SplineInterpolatedCurve", "LineCurve", "CircleCurve", "LoftEdges", "Extrude", "Revolve", "Wedge", "OnCurveLoft", "Box", "Grid", "OneCoreDisk", "RevolvedShape", "ArcData", "OriginData", "AngleData", "SplineData", "PolyLineData", "OnCurveData"]


def cases(tier, seed):
    out = []
    names = list(entity_table().keys())
    tnames = list(TRANSFORMS)
    for en in names:
        for form in ("method", "list"):
            for t in tnames:
                if en == "Point" and TRANSFORMS[t].get("origin", 0) is None:
                    continue  # a Point documents [0,0,0] as its default origin; the property speaks of given origins
                out.append({"entity": en, "seq": [t], "form": form})
        depth2 = en in CHEAP or tier == "thorough"
        if depth2:
            for a, b in itertools.product([t for t in tnames if not (en == "Point" and TRANSFORMS[t].get("origin", 0) is None)], repeat=2):
                form = "method" if (tnames.index(a) + tnames.index(b)) % 2 == 0 else "list"
                out.append({"entity": en, "seq": [a, b], "form": form})
                if "origin" in TRANSFORMS[b] and TRANSFORMS[b]["origin"] is None and en != "Point":
                    # a default origin (the entity's centre AFTER the steps before it): the list form has to agree
                    # with the chain of method calls, so both forms are run
                    out.append({"entity": en, "seq": [a, b], "form": "list" if form == "method" else "method"})
        if tier == "thorough" and en in CHEAP:
            for a, b, c in itertools.product([t for t in tnames if not (en == "Point" and TRANSFORMS[t].get("origin", 0) is None)], repeat=3):
                out.append({"entity": en, "seq": [a, b, c], "form": "method" if (tnames.index(a) + tnames.index(c)) % 2 == 0 else "list"})
        if en not in ("WedgeOnAxis", "LoftCollapsedTop"):
            # (blocks with a collapsed edge cannot be graded, so the written-mesh part of the copy clause has no file)
            out.append({"entity": en, "seq": [], "form": "copy"})
    out.append({"entity": "-", "seq": [], "form": "purity"})
    for ctor in SHARED_INPUT:
        out.append({"entity": ctor, "seq": [], "form": "shared_input"})
    return out


# constructors that take the user's coordinate array: (make(array) -> entity, geometry(entity) -> array, rows)
def _shared_table():
    import classy_blocks as cb
    from classy_blocks.construct.point import Point

    def curve_pts(e):
        return np.array(e.discretize())

    def edge_pts(e):
        return np.array(e.curve.discretize())

    def face_pts(e):
        return np.array(e.point_array)

    return {
        "Point": (lambda a: Point(a[0]), lambda e: np.array([e.position]), 1),
        "Arc": (lambda a: cb.Arc(a[0]), lambda e: np.array([e.point.position]), 1),
        "Origin": (lambda a: cb.Origin(a[0]), lambda e: np.array([e.origin.position]), 1),
        "Spline": (lambda a: cb.Spline(a), edge_pts, 5),
        "PolyLine": (lambda a: cb.PolyLine(a), edge_pts, 5),
        "DiscreteCurve": (lambda a: cb.DiscreteCurve(a), curve_pts, 5),
        "LinearInterpolatedCurve": (lambda a: cb.LinearInterpolatedCurve(a), lambda e: np.array(e.discretize(count=9)), 5),
        "SplineInterpolatedCurve": (lambda a: cb.SplineInterpolatedCurve(a), lambda e: np.array(e.discretize(count=9)), 5),
        "Face": (lambda a: cb.Face(a), face_pts, 4),
        "FaceSpline": (lambda a: cb.Face(a[:4], [cb.Spline(a[4:6]), None, None, cb.PolyLine(a[6:8])]), lambda e: np.vstack([e.point_array, e.edges[0].curve.discretize(), e.edges[3].curve.discretize()]), 8),
        # entities whose geometry is read from a fresh assembly (vertex order may legitimately change under mirror:
        # only "the array and the twin stay put" is compared, the affine relation is the main table's subject)
        "LineCurve": (lambda a: cb.LineCurve(a[0], a[1]), lambda e: np.array(e.discretize(count=5)), 2),
        "CircleCurve": (lambda a: cb.CircleCurve(a[0], a[1], a[2] - a[0], (0, 3.0)), lambda e: np.array(e.discretize(count=7)), 3, "no-affine"),
        "MappedSketch": (lambda a: cb.MappedSketch(a, [[0, 1, 2, 3], [1, 4, 5, 2]]), lambda e: np.vstack([f.point_array for f in e.faces]), 6, "no-affine"),
        "Grid": (lambda a: cb.Grid(a[0], a[2], 2, 1), lambda e: np.vstack([f.point_array for f in e.faces]), 3, "no-affine"),
        "OneCoreDisk": (lambda a: cb.OneCoreDisk(a[0], a[1], np.cross(a[1] - a[0], a[3] - a[0])), lambda e: np.vstack([f.point_array for f in e.faces]), 4, "no-affine"),
        "Box": (lambda a: cb.Box(a[0], a[2] + np.array([0, 0, 1.0])), _assembled_points, 3, "no-affine"),
        "Loft": (lambda a: cb.Loft(cb.Face(a[:4]), cb.Face(a[4:8] + np.array([0, 0, 1.0]))), _assembled_points, 8, "no-affine"),
        "LoftSharedViews": (lambda a: cb.Loft(cb.Face(a[:4]), cb.Face(a[0:4]).translate([0, 0, 1.0])), _assembled_points, 4, "no-affine"),
        "Extrude": (lambda a: cb.Extrude(cb.Face(a[:4]), a[4] + np.array([0, 0, 1.0])), _assembled_points, 5, "no-affine"),
        "Revolve": (lambda a: cb.Revolve(cb.Face(a[:4] + np.array([0, 1.0, 0])), 0.7, a[1] - a[0], a[0]), _assembled_points, 4, "no-affine"),
        "Cylinder": (lambda a: cb.Cylinder(a[0], a[0] + np.cross(a[1] - a[0], a[3] - a[0]), a[1]), _assembled_points, 4, "no-affine"),
    }


SHARED_INPUT = ["Point", "Arc", "Origin", "Spline", "PolyLine", "DiscreteCurve", "LinearInterpolatedCurve", "SplineInterpolatedCurve", "Face", "FaceSpline"]
SHARED_INPUT += ["LineCurve", "CircleCurve", "MappedSketch", "Grid", "OneCoreDisk", "Box", "Loft", "LoftSharedViews", "Extrude", "Revolve", "Cylinder"]


def _assembled_points(entity):
    import classy_blocks as cb

    mesh = cb.Mesh()
    mesh.add(entity)
    mesh.assemble()
    return np.array([v.position for v in mesh.vertices])
_SHARED_ROWS = np.array(
    [[0.0, 0.0, 0.0], [1.0, 0.1, 0.0], [1.1, 1.0, 0.2], [0.1, 0.9, 0.1], [0.3, -0.2, 0.05], [0.7, -0.15, 0.1], [0.0, 0.6, 0.2], [-0.1, 0.3, 0.15]]
)


def run_shared_input(case):
    """two entities built from ONE float64 array of the user's: transforming one of them (every transformation, every
    ordered pair) leaves the array and the other entity alone and moves the first by the affine map"""
    violations = []
    entry = _shared_table()[case["entity"]]
    make, geom, rows = entry[:3]
    check_affine = len(entry) == 3
    tnames = list(TRANSFORMS)
    execs = 0
    for seqn in [(t,) for t in tnames] + list(itertools.product(tnames, repeat=2)):
        if any(TRANSFORMS[t].get("origin", 0) is None and TRANSFORMS[t]["kind"] != "mirror" for t in seqn):
            continue  # default origins are the main table's subject
        for view in (0, 1):
            execs += 1
            coords = {"entity": case["entity"], "form": "shared_input", "seq": list(seqn), "view": view}
            base = np.array(_SHARED_ROWS[:rows] + 0.25, dtype=float)
            arr = base[:] if view else base
            a0 = base.copy()
            try:
                e1, e2 = make(arr), make(arr)
                g1, g2 = geom(e1).copy(), geom(e2).copy()
                L, b = np.eye(3), np.zeros(3)
                for t in seqn:
                    Lt, bt, _ = affine_of(TRANSFORMS[t], np.zeros(3))
                    apply_method(e1, TRANSFORMS[t])
                    L, b = Lt @ L, Lt @ b + bt
                h1, h2 = geom(e1), geom(e2)
            except Exception as err:
                violations.append({"clause": "shared-input-raised", "coords": coords, "detail": f"{type(err).__name__}: {err}"})
                continue
            if not np.array_equal(base, a0):
                violations.append({"clause": "transformation-modifies-users-array", "coords": coords, "detail": f"the array given to the constructor changed by up to {np.abs(base - a0).max():.3g}"})
            elif np.abs(h2 - g2).max() > 1e-12:
                violations.append({"clause": "transformation-moves-another-entity", "coords": coords, "detail": f"a second entity built from the same array moved by {np.abs(h2 - g2).max():.3g}"})
            elif check_affine and (h1.shape != g1.shape or np.abs(h1 - (g1 @ L.T + b)).max() > TOL):
                violations.append({"clause": "points", "coords": coords, "detail": f"off by {np.abs(h1 - (g1 @ L.T + b)).max():.3g}"})
    return {"violations": violations, "outcome": "shared_input", "execs": execs, "states": 1, "transitions": execs, "nontrivial": True}


# ----------------------------------------------------------------------------
# geometry extraction
def geometry(entity, kind):
    """-> dict of arrays: 'points' (n x 3, transform as points), 'lengths' (list of (key points, length)), 'dirs'"""
    import classy_blocks as cb

    if kind == "points":
        return {"points": np.array([entity.position]), "edges": [], "wires": []}
    if kind == "curve":
        try:
            pts = np.array(entity.discretize(count=9))
        except TypeError:  # DiscreteCurve: the points themselves
            pts = np.array(entity.discretize())
        return {"points": pts, "edges": [], "wires": [(pts[0], pts[-1], float(entity.length))]}
    if kind == "edgedata":
        g = {"points": np.zeros((0, 3)), "edges": [], "wires": []}
        if entity.kind == "arc":
            g["points"] = np.array([entity.point.position])
        elif entity.kind == "origin":
            g["points"] = np.array([entity.origin.position])
        elif entity.kind in ("spline", "polyLine"):
            g["points"] = np.array(entity.curve.discretize())
        elif entity.kind == "curve":
            g["points"] = np.array(entity.curve.discretize(count=9))
        elif entity.kind == "angle":
            # a turn by `angle` about `axis`: one axial (pseudo-)vector
            g["rotvec"] = float(entity.angle) * np.array(entity.axis.components, float)
        return g
    if kind in ("face", "sketch"):
        faces = [entity] if kind == "face" else list(entity.faces)
        pts = []
        edges = []
        for f in faces:
            P = f.point_array
            pts += list(P)
            for i, e in enumerate(f.edges):
                a, b = P[i], P[(i + 1) % 4]
                if e.kind == "arc":
                    edges.append(("arc", a, b, np.array([e.point.position])))
                elif e.kind == "origin":
                    edges.append(("origin", a, b, np.array([e.origin.position])))
                elif e.kind in ("spline", "polyLine"):
                    edges.append((e.kind, a, b, np.array(e.curve.discretize())))
                elif e.kind == "angle":
                    edges.append(("angle", a, b, (e.angle, np.array(e.axis.components))))
                elif e.kind == "curve":
                    try:
                        cp = np.array(e.curve.discretize(count=9))
                    except TypeError:
                        cp = np.array(e.curve.discretize())
                    edges.append(("curve", a, b, cp))
        return {"points": np.array(pts), "edges": edges, "wires": []}
    # additive: assemble in a fresh mesh
    mesh = cb.Mesh()
    mesh.add(entity)
    mesh.assemble()
    V = np.array([v.position for v in mesh.vertices])
    edges = []
    for e in mesh.edge_list.edges:
        a, b = e.vertex_1.position, e.vertex_2.position
        if e.kind in ("arc", "origin", "angle"):
            edges.append(("arc", a, b, np.array([e.third_point.position])))
        elif e.kind in ("spline", "polyLine", "curve"):
            edges.append(("pts", a, b, np.array(e.point_array)))
        elif e.kind == "project":
            edges.append(("project", a, b, tuple(re.sub(r"sphere_\d+", "sphere_#", lab) for lab in e.data.label)))
    wires = []
    for blk in mesh.blocks:
        for w in blk.wire_list:
            wires.append((w.vertices[0].position, w.vertices[1].position, float(w.edge.length)))
    spheres = []
    for label, lines in (getattr(entity, "geometry", None) or {}).items():
        txt = " ".join(lines)
        m1, m2 = re.search(r"centre \(([^)]*)\)", txt), re.search(r"radius ([-+0-9.eE]+)", txt)
        if "searchableSphere" in txt and m1 and m2:
            spheres.append((np.array([float(x) for x in m1.group(1).split()]), float(m2.group(1))))
    return {"points": V, "edges": edges, "wires": wires, "n_blocks": len(mesh.blocks), "spheres": spheres}


def compare(g0, g1, L, b, ratio, tol_len=1e-6):
    """G(T(e)) == M G(e) as unlabelled geometry; returns list of (clause, detail)"""
    bad = []
    scale = max(1.0, float(np.max(np.abs(g1["points"]))) if len(g1["points"]) else 1.0)
    tol = TOL * scale

    def M(p):
        return np.asarray(p) @ L.T + b

    P0 = M(g0["points"])
    P1 = g1["points"]
    if len(P0) != len(P1):
        bad.append(("vertex-count", f"{len(g0['points'])} vertices before, {len(P1)} after the transformation"))
        return bad
    # unlabelled match
    used = set()
    for p in P0:
        d = np.linalg.norm(P1 - p, axis=1)
        j = int(np.argmin(d))
        if d[j] > tol:
            bad.append(("vertex-position", f"mapped vertex {np.round(p, 6).tolist()} has no counterpart (nearest at distance {d[j]:.3g})"))
            return bad
        used.add(j)

    def key(a, c):
        return tuple(sorted([tuple(np.round(a / tol / 10).astype(int)), tuple(np.round(c / tol / 10).astype(int))]))

    def find(lst, a, c):
        out = []
        for item in lst:
            x, y = item[1], item[2]
            if (np.linalg.norm(x - a) < tol and np.linalg.norm(y - c) < tol) or (np.linalg.norm(x - c) < tol and np.linalg.norm(y - a) < tol):
                out.append(item)
        return out

    if len(g0["edges"]) != len(g1["edges"]):
        bad.append(("edge-count", f"{len(g0['edges'])} curved edges before, {len(g1['edges'])} after"))
        return bad
    for kind, a, c, payload in g0["edges"]:
        ma, mc = M(a), M(c)
        cands = [x for x in find(g1["edges"], ma, mc) if x[0] == kind]
        if not cands:
            bad.append(("edge-missing", f"{kind} edge between {np.round(ma, 5).tolist()} and {np.round(mc, 5).tolist()} not found after the transformation"))
            continue
        k1, a1, c1, pay1 = cands[0]
        if kind == "project":
            if pay1 != payload:
                bad.append(("edge-labels", f"{payload} -> {pay1}"))
            continue
        if kind == "angle":
            ang0, ax0 = payload
            ang1, ax1 = pay1
            want = L @ ax0 / np.linalg.norm(L @ ax0)
            got = ax1 / np.linalg.norm(ax1)
            # the arc described by (angle, axis) from the mapped first point to the mapped second point must be the mapped arc:
            # compare the middle points of both descriptions through the circle model
            m0 = _angle_mid(a, c, ang0, ax0)
            same_dir = np.linalg.norm(a1 - ma) < tol
            m1 = _angle_mid(a1, c1, ang1, ax1) if same_dir else _angle_mid(a1, c1, ang1, ax1)
            if np.linalg.norm(M(m0) - m1) > 10 * tol:
                bad.append(("angle-edge-sense", f"angle {ang0}->{ang1}, axis {np.round(ax0, 4).tolist()}->{np.round(ax1, 4).tolist()}: middle of the described arc {np.round(m1, 5).tolist()}, mapped original {np.round(M(m0), 5).tolist()}"))
            if abs(abs(float(np.dot(want, got))) - 1) > 1e-6:
                bad.append(("angle-axis-displaced", f"axis {np.round(got, 5).tolist()} is not the rotated/reflected axis {np.round(want, 5).tolist()}"))
            continue
        mp = M(payload)
        if len(mp) != len(pay1):
            bad.append(("edge-points", f"{kind}: {len(mp)} points -> {len(pay1)}"))
            continue
        direct = np.linalg.norm(a1 - ma) < tol
        q = pay1 if direct else pay1[::-1]
        err = float(np.max(np.linalg.norm(mp - q, axis=1)))
        if err > 10 * tol:
            # a symmetric payload may legitimately be listed either way round
            err2 = float(np.max(np.linalg.norm(mp - q[::-1], axis=1)))
            if err2 > 10 * tol or np.linalg.norm(ma - mc) > tol:
                bad.append(("edge-shape", f"{kind} edge {np.round(ma, 4).tolist()}-{np.round(mc, 4).tolist()}: defining points off by {err:.4g} from the mapped original"))
    if "rotvec" in g0:
        Q = L / abs(ratio)
        want = float(np.linalg.det(Q)) * (Q @ g0["rotvec"])
        if np.linalg.norm(want - g1["rotvec"]) > 1e-9:
            bad.append(("angle-axis-displaced", f"angle x axis {np.round(g1['rotvec'], 6).tolist()}, the rotated/reflected original is {np.round(want, 6).tolist()}"))
    for c0, r0 in g0.get("spheres", []):
        got = [(c1, r1) for c1, r1 in g1.get("spheres", []) if np.linalg.norm(c1 - M(c0)) < 10 * tol and math.isclose(r1, abs(ratio) * r0, rel_tol=1e-6)]
        if not got:
            bad.append(("built-in-geometry-not-transformed", f"searchableSphere centre {np.round(c0, 5).tolist()} radius {r0:.6g} should become centre {np.round(M(c0), 5).tolist()} radius {abs(ratio) * r0:.6g}; written {[(np.round(c, 5).tolist(), round(r, 6)) for c, r in g1.get('spheres', [])]}"))
    if len(g0["wires"]) != len(g1["wires"]):
        bad.append(("wire-count", f"{len(g0['wires'])} -> {len(g1['wires'])}"))
        return bad
    for a, c, length in g0["wires"]:
        cands = find([("w", x, y, l) for x, y, l in g1["wires"]], M(a), M(c))
        if not cands:
            bad.append(("wire-missing", f"edge {np.round(M(a), 5).tolist()}-{np.round(M(c), 5).tolist()}"))
            continue
        if not any(math.isclose(x[3], abs(ratio) * length, rel_tol=1e-5, abs_tol=1e-9) for x in cands):
            bad.append(("edge-length", f"length {length:.6f} x ratio {ratio} = {abs(ratio) * length:.6f}, after the transformation {[round(x[3], 6) for x in cands]}"))
    return bad


def _angle_mid(A, B, theta, axis):
    n = np.asarray(axis, float)
    n = n / np.linalg.norm(n)
    chord = B - A
    chord_p = chord - n * float(np.dot(chord, n))
    Lc = float(np.linalg.norm(chord_p))
    t = chord_p / Lc
    c = (A + B) / 2 + np.cross(n, t) * Lc / (2 * math.tan(theta / 2))
    v = A - c
    v = v - n * float(np.dot(v, n))
    ang = theta / 2
    return c + n * float(np.dot((A + B) / 2 - c, n)) + (v * math.cos(ang) + np.cross(n, v) * math.sin(ang))


# ----------------------------------------------------------------------------
def canon_text(text):
    labels = {}

    def rep(m):
        labels.setdefault(m.group(0), f"sphere_#{len(labels)}")
        return labels[m.group(0)]

    return re.sub(r"sphere_\d+", rep, text)


def chop_all(entity):
    ops = [entity] if not hasattr(entity, "operations") else entity.operations
    for op in ops:
        for a in range(3):
            if not op.chops[a]:
                op.chop(a, count=1)


def write_text(entity):
    import classy_blocks as cb

    mesh = cb.Mesh()
    mesh.add(entity)
    path = os.path.join(runner.scratch_dir(), f"c09_{os.getpid()}")
    mesh.write(path)
    return open(path).read()


def run_case(case):
    import classy_blocks as cb
    from classy_blocks.util import functions as f

    violations = []
    coords = dict(case)

    def bad(clause, detail):
        violations.append({"clause": clause, "coords": coords, "detail": detail})

    if case["form"] == "shared_input":
        return run_shared_input(case)
    if case["form"] == "purity":
        for name, call in (
            ("functions.rotate", lambda p, v, o: f.rotate(p, 0.7, v, o)),
            ("functions.scale", lambda p, v, o: f.scale(p, 1.7, o)),
            ("functions.mirror", lambda p, v, o: f.mirror(p, v, o)),
        ):
            p, v, o = np.array([1.0, 2.0, 3.0]), np.array([0.3, -1.0, 2.0]), np.array([0.5, 0.25, -1.0])
            p0, v0, o0 = p.copy(), v.copy(), o.copy()
            call(p, v, o)
            if not (np.array_equal(p, p0) and np.array_equal(v, v0) and np.array_equal(o, o0)):
                violations.append({"clause": "helper-modifies-argument", "coords": {"helper": name}, "detail": f"point {p0}->{p}, vector {v0}->{v}, origin {o0}->{o}"})
        table = entity_table()
        for en in ("Point", "Face", "LoftEdges", "DiscreteCurve"):
            for tn, t in TRANSFORMS.items():
                e = table[en][1]()
                arrs = {k: np.array(v, float) for k, v in t.items() if isinstance(v, tuple)}
                before = {k: v.copy() for k, v in arrs.items()}
                k = t["kind"]
                if k == "translate":
                    e.translate(arrs["d"])
                elif k == "rotate":
                    e.rotate(t["angle"], arrs["axis"], arrs.get("origin"))
                elif k == "scale":
                    e.scale(t["ratio"], arrs.get("origin"))
                else:
                    e.mirror(arrs["normal"], arrs.get("origin"))
                for key in arrs:
                    if not np.array_equal(arrs[key], before[key]):
                        violations.append({"clause": "method-modifies-argument", "coords": {"entity": en, "transformation": tn, "argument": key}, "detail": f"{before[key]} -> {arrs[key]}"})
        # a displacement that IS one of the entity's own arrays ("move by your first point")
        for en in ("Face", "LoftEdges", "Box", "DiscreteCurve"):
            kind_e, make_e = table[en]
            e = make_e()
            own = e.points[0].position if kind_e == "face" else e.bottom_face.points[0].position if kind_e == "additive" else e.array.points[0]
            d0 = np.array(own, dtype=float)
            g0 = geometry(make_e(), kind_e)
            try:
                e.translate(own)
                for clause, detail in compare(g0, geometry(e, kind_e), np.eye(3), d0, 1.0):
                    violations.append({"clause": "translate-by-own-array:" + clause, "coords": {"entity": en}, "detail": detail})
            except Exception as err:
                violations.append({"clause": "translate-by-own-array:raised", "coords": {"entity": en}, "detail": f"{type(err).__name__}: {err}"})
            # the same in list form, and an own array as the origin of a step that follows a translation
            e = make_e()
            own = e.points[0].position if kind_e == "face" else e.bottom_face.points[0].position if kind_e == "additive" else e.array.points[0]
            try:
                e.transform([cb.Translation(own)])
                for clause, detail in compare(g0, geometry(e, kind_e), np.eye(3), d0, 1.0):
                    violations.append({"clause": "translate-by-own-array:" + clause, "coords": {"entity": en, "form": "list"}, "detail": detail})
            except Exception as err:
                violations.append({"clause": "translate-by-own-array:raised", "coords": {"entity": en, "form": "list"}, "detail": f"{type(err).__name__}: {err}"})
            e = make_e()
            own = e.points[0].position if kind_e == "face" else e.bottom_face.points[0].position if kind_e == "additive" else e.array.points[0]
            o0 = np.array(own, dtype=float)
            try:
                e.transform([cb.Translation([0.7, -1.2, 0.4]), cb.Rotation([1.0, 2.0, 3.0], 0.8, own)])
                La, ba, _ = affine_of({"kind": "rotate", "angle": 0.8, "axis": (1.0, 2.0, 3.0), "origin": tuple(o0)}, np.zeros(3))
                for clause, detail in compare(g0, geometry(e, kind_e), La, La @ np.array([0.7, -1.2, 0.4]) + ba, 1.0):
                    violations.append({"clause": "origin-is-own-array:" + clause, "coords": {"entity": en, "form": "list"}, "detail": detail})
            except Exception as err:
                violations.append({"clause": "origin-is-own-array:raised", "coords": {"entity": en, "form": "list"}, "detail": f"{type(err).__name__}: {err}"})
        return {"violations": violations, "outcome": "purity", "execs": 7 + 4 * len(TRANSFORMS), "nontrivial": True}

    kind, make = entity_table()[case["entity"]]
    if case["form"] == "copy":
        e = make()
        try:
            g0 = geometry(e, kind)
            c = e.copy()
            g1 = geometry(c, kind)
            for clause, detail in compare(g0, g1, np.eye(3), np.zeros(3), 1.0):
                bad("copy-not-equivalent:" + clause, detail)
            c.translate([1.0, 2.0, 3.0])
            g2 = geometry(e, kind)
            for clause, detail in compare(g0, g2, np.eye(3), np.zeros(3), 1.0):
                bad("copy-not-independent:" + clause, detail)
            # ... and the copy is an entity of its own: it is the one that moved
            for clause, detail in compare(g0, geometry(c, kind), np.eye(3), np.array([1.0, 2.0, 3.0]), 1.0):
                bad("copy-does-not-transform:" + clause, detail)
            # ... the other way round: the ORIGINAL is transformed after the copy was taken (copy evaluated before or not);
            # the copy stays where it was, the original moves
            for pre in (True, False):
                for tname, apply_t, L_t, b_t in (
                    ("translate", lambda x: x.translate([1.0, 2.0, 3.0]), np.eye(3), np.array([1.0, 2.0, 3.0])),
                    ("scale", lambda x: x.scale(2.0, [0.0, 0.0, 0.0]), 2.0 * np.eye(3), np.zeros(3)),
                ):
                    eb = make()
                    gb0 = geometry(eb, kind)
                    cb_ = eb.copy()
                    if pre:
                        geometry(cb_, kind)
                    apply_t(eb)
                    for clause, detail in compare(gb0, geometry(cb_, kind), np.eye(3), np.zeros(3), 1.0):
                        bad(f"copy-not-independent:original-{tname}d-{'after' if pre else 'before'}-copy-evaluated:" + clause, detail)
                    for clause, detail in compare(gb0, geometry(eb, kind), L_t, b_t, 2.0 if tname == "scale" else 1.0):
                        bad(f"original-does-not-transform-after-copy:{tname}:" + clause, detail)
            if kind == "additive":
                e2 = make()
                chop_all(e2)
                c2 = e2.copy()
                t1 = canon_text(write_text(e2))
                t2 = canon_text(write_text(c2))
                if t1 != t2:
                    d1, d2 = foamdict.parse(t1), foamdict.parse(t2)
                    diff = [k for k in ("vertices", "blocks", "edges", "faces", "boundary", "geometry") if d1.get(k) != d2.get(k)]
                    if diff:
                        bad("copy-writes-different-mesh", f"sections {diff}")
                # independence of everything that is declared on an entity, both ways: what is declared on one of the
                # two after copying must not show in the file the other one writes
                for first, label in (("copy", "declarations-on-copy-leak-into-original"), ("original", "declarations-on-original-leak-into-copy")):
                    e3 = make()
                    chop_all(e3)
                    c3 = e3.copy()
                    target, other = (c3, e3) if first == "copy" else (e3, c3)
                    before = canon_text(write_text(other))
                    tops = [target] if not hasattr(target, "operations") else list(target.operations)
                    tops[0].set_patch("top", "only_here")
                    tops[-1].set_patch(["left", "front"], "only_here_2")
                    tops[0].set_cell_zone("only_here_zone")
                    tops[0].project_side("bottom", "only_here_geo", edges=True, points=True)
                    tops[-1].project_corner(6, "only_here_geo")
                    tops[0].project_edge(1, 5, "only_here_geo")
                    tops[0].chop(0, count=7)
                    tops[0].translate([0.01, 0.0, 0.0])
                    after = canon_text(write_text(other))
                    if before != after:
                        d1, d2 = foamdict.parse(before), foamdict.parse(after)
                        diff = [k for k in ("vertices", "blocks", "edges", "faces", "boundary", "geometry") if d1.get(k) != d2.get(k)]
                        bad("copy-not-independent:" + label, f"sections {diff} of the other entity's file changed")
                d2 = foamdict.parse(write_text(c2))
                used = {lab for v in d2["vertices"] for lab in v["project"]} | {lab for ed in d2["edges"] if ed["kind"] == "project" for lab in ed["labels"]} | {fa["label"] for fa in d2["faces"]}
                undefined = sorted(used - set(d2["geometry"]) - {"terrain"})
                if undefined:
                    bad("copy-projects-to-undefined-geometry", f"labels {undefined} are used but not defined in 'geometry' ({sorted(d2['geometry'])})")
        except Exception as err:
            bad("copy-raised", f"{type(err).__name__}: {err}")
        return {"violations": violations, "outcome": "copy:" + kind, "execs": 4, "nontrivial": True}

    seq = [TRANSFORMS[t] for t in case["seq"]]
    try:
        e0 = make()
        g0 = geometry(e0, kind)
        e = make()
        L, b, ratio = np.eye(3), np.zeros(3), 1.0
        if case["form"] == "method":
            for t in seq:
                Lt, bt, rt = affine_of(t, np.array(e.center, float))
                apply_method(e, t)
                L, b, ratio = Lt @ L, Lt @ b + bt, ratio * rt
        else:
            # the list form evaluates the default origin (the entity's own `center`) before each transformation
            # of the list: take it from a twin on which the prefix of the list has been applied
            for k, t in enumerate(seq):
                twin = make()
                if k:
                    apply_list(twin, seq[:k])
                Lt, bt, rt = affine_of(t, np.array(twin.center, float))
                L, b, ratio = Lt @ L, Lt @ b + bt, ratio * rt
            apply_list(e, seq)
        g1 = geometry(e, kind)
    except NotImplementedError as err:
        return {"violations": [], "outcome": "not-supported", "execs": 1, "nontrivial": False}
    except Exception as err:
        bad("transformation-raised", f"{type(err).__name__}: {err}")
        return {"violations": violations, "outcome": "raised", "execs": 1, "nontrivial": True}
    for clause, detail in compare(g0, g1, L, b, ratio):
        bad(clause, detail)
    return {"violations": violations, "outcome": f"{kind}:{len(seq)}", "execs": 2, "states": 1, "transitions": len(seq), "nontrivial": True}


class _Centre:
    def __init__(self, c):
        self.center = c
