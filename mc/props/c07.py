"""C07 - curved-edge entries are unique, on real block edges and correctly directed."""

from __future__ import annotations

import math
import os

import numpy as np

from mc import blockmesh_ref as bm
from mc import foamdict, runner
from mc.domains import FRAMES, frame_apply, frame_vec, jitter_vec

ID = "C07"
LEVEL = "model_checking"
DESIGN_REF = "DESIGN.md 5 C07"
RULE = (
    "case = (edge kind, one of the 12 edge slots of an operation, what is done to the carrying face after the edge "
    "was attached: nothing / invert / shift 1..3 / reorient to corner 0..3 (a short history), duplicate definition by a "
    "second operation: none / same direction / opposite direction / a neighbour that shares the edge without defining it, in both insertion orders, frame); assemble+write on the "
    "real library, the edges section is read back and compared with the curve the user described (circle model for "
    "angle/origin arcs, polyline for spline/polyLine); every (kind, position) also on an operation that is inverted or mirrored "
    "as a whole after its edges were given. non-trivial = a direction-dependent or degenerate edge kind, or a duplicate"
    " Kind oncurve_neg: vertices at parameters -1 and 1 of an analytic curve over (-1.3, 1.4)."
)
ASSUMPTIONS = [
    "an edge attached as face.add_edge(i, data) describes the curve from face point i to point i+1 (side edge i: bottom i to top i)",
    "angle-and-axis arcs follow OpenFOAM's right-hand convention from the first to the second vertex (independent circle model)",
    "edge length of spline/polyLine = polyline through end points and given points (the library's definition)",
]

ANGLES = {"angle+": 0.9, "angle-": -1.3, "angle++": 4.0, "angle--": -4.3}  # two reflex sector angles, one of either sign
KINDS = ["arc", "origin", "angle+", "angle-", "angle++", "angle--", "spline", "polyline", "project1", "project2", "oncurve", "oncurve_ends", "oncurve_neg", "line", "collinear_arc", "zero_length"]
DIRECTED = {"angle+", "angle-", "angle++", "angle--", "spline", "polyline", "oncurve", "oncurve_ends", "oncurve_neg"}
OP_USAGES = ["op_invert", "op_mirror"]  # the finished operation inverted / mirrored about a skew plane off the origin
USAGES = ["given", "invert", "shift1", "shift2", "shift3", "reorient0", "reorient1", "reorient2", "reorient3"]


def cases(tier, seed):
    out = []
    frames = [0, (seed % 7) + 1] if tier == "quick" else list(range(len(FRAMES)))
    for fr in frames:
        for kind in KINDS:
            for slot in range(12):
                usages = (USAGES if slot < 8 else ["given"]) + OP_USAGES
                for usage in usages:
                    if kind == "zero_length" and (slot < 8 or usage != "given"):
                        continue
                    if kind == "oncurve_neg" and usage == "op_mirror":
                        continue  # (an AnalyticCurve is documented as not transformable)
                    out.append({"frame": fr, "kind": kind, "slot": slot, "usage": usage, "dup": "none", "order": 0})
        for kind in ("spline", "angle+", "angle--", "arc", "polyline", "project1", "origin"):
            if tier == "quick" and kind in ("project1", "origin") and fr != 0:
                continue
            for slot in (0, 1, 3, 5, 7, 8, 11):
                for dup in ("same", "opposite", "neighbour"):
                    for order in (0, 1):
                        out.append({"frame": fr, "kind": kind, "slot": slot, "usage": "given", "dup": dup, "order": order})
        # an edge that one operation declares with an arc that is omitted (collinear) and its neighbour with a spline:
        # the spline is what is written, and what both blocks measure
        for slot in (0, 1, 5, 7, 8, 11):
            for order in (0, 1):
                out.append({"frame": fr, "kind": "collinear_arc", "slot": slot, "usage": "given", "dup": "spline_by_neighbour", "order": order})
        # the same Face object used as the top of one operation and the bottom of the next (stacking),
        # and life-cycle histories after the first write: write again / clear+write / backport+write
        for kind in ("spline", "polyline", "angle+", "angle-", "angle--", "arc", "oncurve"):
            for slot in (4, 5, 6, 7):
                for order in (0, 1):
                    out.append({"frame": fr, "kind": kind, "slot": slot, "usage": "given", "dup": "stack", "order": order})
            for slot in (0, 3, 7, 9):
                for after in ("W", "CW", "BW", "CWW"):
                    out.append({"frame": fr, "kind": kind, "slot": slot, "usage": "given", "dup": "none", "order": 0, "after": after})
    # projected edges declared through the operation's own calls (project_edge / project_side with edges=True): all
    # sequences of one and two calls (thorough: three, thinned) with two labels
    P = proj_calls()
    for fr in frames[:1] if tier == "quick" else frames[:2]:
        for i in range(len(P)):
            out.append({"frame": fr, "what": "projcalls", "calls": [i]})
            for j in range(len(P)):
                out.append({"frame": fr, "what": "projcalls", "calls": [i, j]})
        if tier == "thorough":
            thin = list(range(0, len(P), 3))
            for i in thin:
                for j in thin:
                    for k in thin:
                        out.append({"frame": fr, "what": "projcalls", "calls": [i, j, k]})
    # two operations that project their common edge (to the same or to different surfaces), both add orders
    for labels in (("geoA", "geoB"), ("geoA", "geoA"), ("geoB", "geoA")):
        for order in (0, 1):
            out.append({"frame": frames[0], "what": "proj2ops", "labels": list(labels), "order": order})
    return out


def run_proj2ops(case):
    import classy_blocks as cb

    coords = dict(case)
    violations = []
    a = cb.Box([0, 0, 0], [1, 1, 1])
    b = cb.Box([1, 0, 0], [2, 1, 1])
    a.project_edge(1, 2, case["labels"][0])  # the line x = 1, z = 0 ...
    b.project_edge(0, 3, case["labels"][1])  # ... is edge 0-3 of the second box
    for op in (a, b):
        for ax in range(3):
            op.chop(ax, count=2)
    mesh = cb.Mesh()
    for op in ((a, b) if case["order"] == 0 else (b, a)):
        mesh.add(op)
    mesh.add_geometry({"geoA": ["type searchablePlane", "planeType pointAndNormal", "point (0 0 0)", "normal (0 0 1)"], "geoB": ["type searchablePlane", "planeType pointAndNormal", "point (1 0 0)", "normal (1 0 0)"]})
    path = os.path.join(runner.scratch_dir(), f"c07_{os.getpid()}")
    try:
        mesh.write(path)
    except Exception as err:
        violations.append({"clause": "write-raised", "coords": coords, "detail": f"{type(err).__name__}: {err}"})
        return {"violations": violations, "outcome": "raised", "nontrivial": True}
    d = foamdict.parse(open(path).read())
    pos = [tuple(round(x, 6) for x in v["pos"]) for v in d["vertices"]]
    mine = [e for e in d["edges"] if {pos[e["v"][0]], pos[e["v"][1]]} == {(1.0, 0.0, 0.0), (1.0, 1.0, 0.0)}]
    want = sorted(set(case["labels"]))
    if len(d["edges"]) != 1 or len(mine) != 1 or mine[0]["kind"] != "project" or sorted(mine[0]["labels"]) != want:
        violations.append({"clause": "project-labels", "coords": coords, "detail": f"edges written: {[(e['kind'], e['v'], e.get('labels')) for e in d['edges']]}; the common edge was projected to {want}"})
    return {"violations": violations, "outcome": f"proj2ops:{len(want)}", "nontrivial": True}


def proj_calls():
    P = []
    for k, (c1, c2) in enumerate(bm.EDGES):
        P.append(("edge", c1, c2, "geoA"))
        P.append(("edge", c2, c1, "geoB"))
    for side in ("bottom", "top", "left", "right", "front", "back"):
        P.append(("side", side, "geoA"))
    for side in ("top", "front"):
        P.append(("side", side, "geoB"))
    return P


def run_projcalls(case):
    import classy_blocks as cb

    coords = dict(case)
    violations = []

    def bad(clause, detail):
        violations.append({"clause": clause, "coords": coords, "detail": detail})

    P = hexa_points(case["frame"])
    loft = cb.Loft(cb.Face(P[:4]), cb.Face(P[4:]))
    for ax in range(3):
        loft.chop(ax, count=2)
    calls = proj_calls()
    model = {}
    for i in case["calls"]:
        c = calls[i]
        if c[0] == "edge":
            loft.project_edge(c[1], c[2], c[3])
            model.setdefault(frozenset((c[1], c[2])), set()).add(c[3])
        else:
            loft.project_side(c[1], c[2], edges=True)
            cs = set(bm.FACES[c[1]])
            for ed in bm.EDGES:
                if set(ed) <= cs:
                    model.setdefault(frozenset(ed), set()).add(c[2])
    coords["calls_text"] = [str(calls[i]) for i in case["calls"]]
    mesh = cb.Mesh()
    mesh.add(loft)
    mesh.add_geometry({"geoA": ["type searchablePlane", "planeType pointAndNormal", "point (0 0 0)", "normal (0 0 1)"], "geoB": ["type searchablePlane", "planeType pointAndNormal", "point (0 0 0)", "normal (0 1 0)"]})
    path = os.path.join(runner.scratch_dir(), f"c07_{os.getpid()}")
    try:
        mesh.write(path)
    except Exception as err:
        bad("write-raised", f"{type(err).__name__}: {err}")
        return {"violations": violations, "outcome": "raised", "nontrivial": True}
    d = foamdict.parse(open(path).read())
    v = d["blocks"][0]["v"]
    got = {}
    for e in d["edges"]:
        key = None
        for c1, c2 in bm.EDGES:
            if {v[c1], v[c2]} == set(e["v"]):
                key = frozenset((c1, c2))
        if key is None:
            bad("entry-not-a-block-edge", f"{e['kind']} {e['v']}")
            continue
        if key in got:
            bad("edge-listed-twice", f"corners {sorted(key)}")
        if e["kind"] != "project":
            bad("wrong-kind", f"corners {sorted(key)}: {e['kind']}")
            continue
        if len(set(e["labels"])) != len(e["labels"]):
            bad("project-labels", f"corners {sorted(key)}: a label listed twice: {e['labels']}")
        got[key] = set(e["labels"])
    for key in sorted(set(model) | set(got), key=sorted):
        if model.get(key, set()) != got.get(key, set()):
            bad("project-labels", f"edge between corners {sorted(key)}: written {sorted(got.get(key, []))}, declared {sorted(model.get(key, []))}")
    return {"violations": violations, "outcome": f"projcalls:{len(model)}edges:{max(len(x) for x in model.values())}labels", "nontrivial": len(case["calls"]) > 1}


# ----------------------------------------------------------------------------
def hexa_points(frame):
    pts = []
    for k, (x, y, z) in enumerate(bm.CORNER_XYZ):
        pts.append(np.array([x * 1.3, y * 1.0, z * 0.8]) + 0.06 * jitter_vec(k + 11))
    return np.array(frame_apply(FRAMES[frame], pts))


def user_curve(kind, A, B, frame, flip=False):
    """-> (EdgeData factory args, reference description) for a curve running A -> B.
    flip=True returns the data that describes the SAME curve but given from B to A."""
    import classy_blocks as cb

    A = np.asarray(A, float)
    B = np.asarray(B, float)
    chord = B - A
    L = float(np.linalg.norm(chord))
    t = chord / L
    # a deterministic side direction perpendicular to the chord
    w = np.cross(t, frame_vec(FRAMES[frame], [0.3, 0.5, 0.81]))
    w = w / np.linalg.norm(w)
    ref = {"A": A, "B": B}
    if kind in ("spline", "polyline"):
        # points bunched towards A (asymmetric)
        fr = [0.08, 0.2, 0.45]
        pts = [A + chord * f + w * L * 0.25 * math.sin(math.pi * f) * (1.5 - f) for f in fr]
        ref["points"] = pts
        ref["length"] = bm.polyline_length([A] + pts + [B])
        data_pts = pts[::-1] if flip else pts
        cls = cb.Spline if kind == "spline" else cb.PolyLine
        return (lambda: cls([list(p) for p in data_pts])), ref
    if kind == "arc":
        p = A + chord * 0.3 + w * L * 0.2
        ref["point"] = p
        c, r, th = bm.circle_through(A, p, B)
        ref["length"] = r * th
        return (lambda: cb.Arc(list(p))), ref
    if kind == "collinear_arc":
        p = A + chord * 0.4
        return (lambda: cb.Arc(list(p))), ref
    if kind == "origin":
        # equidistant origin on the perpendicular bisector, arc angle in (0, pi)
        o = (A + B) / 2 - w * L * 0.7
        r = float(np.linalg.norm(A - o))
        u = (A - o) + (B - o)
        ref["mid"] = o + r * u / np.linalg.norm(u)
        th = math.acos(float(np.dot(A - o, B - o)) / r / r)
        ref["length"] = r * th
        return (lambda: cb.Origin(list(o))), ref
    if kind in ANGLES:
        theta = ANGLES[kind]
        n = np.cross(t, w)
        n = n / np.linalg.norm(n)
        # circle model: rotate A about c by theta (right-handed about n) gives B
        c = (A + B) / 2 + np.cross(n, t) * L / (2 * math.tan(theta / 2))
        ref["mid"] = c + _rot(A - c, n, theta / 2)
        ref["length"] = float(np.linalg.norm(A - c)) * abs(theta)
        ang = -theta if flip else theta
        return (lambda: cb.Angle(ang, list(n * 2.5))), ref
    if kind == "project1":
        ref["labels"] = ["geoA"]
        return (lambda: cb.Project("geoA")), ref
    if kind == "project2":
        ref["labels"] = ["geoA", "geoB"]
        return (lambda: cb.Project(["geoB", "geoA"])), ref
    if kind == "oncurve":
        pts = [A - chord * 0.3 - w * 0.1 * L, A, A + chord * 0.15 + w * L * 0.2, A + chord * 0.6 + w * L * 0.25, B, B + chord * 0.3 - w * 0.1 * L]
        ref["curve_points"] = pts
        return (lambda: cb.OnCurve(cb.LinearInterpolatedCurve([list(p) for p in pts]), n_points=7, representation="polyLine")), ref
    if kind == "oncurve_ends":
        # the curve starts exactly at A and ends exactly at B (parameters 0 and 1 of the curve are the edge's vertices)
        pts = [A, A + chord * 0.15 + w * L * 0.2, A + chord * 0.6 + w * L * 0.25, B]
        ref["curve_points"] = pts
        return (lambda: cb.OnCurve(cb.LinearInterpolatedCurve([list(p) for p in pts]), n_points=7, representation="polyLine")), ref
    if kind == "oncurve_neg":
        # an analytic curve (a parabola over the chord) whose parameter runs from below -1 to above 1: vertex A sits
        # at parameter -1, vertex B at +1
        mid = (A + B) / 2

        def fcurve(tt):
            return mid + chord * (tt / 2) + w * (0.2 * L * (1 - tt * tt))

        ref["curve_points"] = [fcurve(-1 + 2 * i / 4000) for i in range(4001)]
        ref["param_of"] = lambda g: 2 * float(np.dot(g - mid, chord)) / float(np.dot(chord, chord))
        ref["length_rel"] = 1e-3  # (AnalyticCurve.get_length is a 100-segment polyline by definition)
        cp = np.array(ref["curve_points"])
        ref["length"] = float(np.sum(np.linalg.norm(cp[1:] - cp[:-1], axis=1)))
        return (lambda: cb.OnCurve(cb.AnalyticCurve(fcurve, (-1.3, 1.4)), n_points=7, representation="polyLine")), ref
    if kind in ("line", "zero_length"):
        return (lambda: _Line() if kind == "line" else cb.Spline([list(A + w * 0.1), list(A + w * 0.2)])), ref
    raise AssertionError(kind)


def _rot(v, n, ang):
    return v * math.cos(ang) + np.cross(n, v) * math.sin(ang) + n * float(np.dot(n, v)) * (1 - math.cos(ang))


def slot_corners(slot):
    """corner numbers (a, b) the user's curve runs between, for slot 0..11"""
    if slot < 4:
        return slot, (slot + 1) % 4
    if slot < 8:
        i = slot - 4
        return 4 + i, 4 + (i + 1) % 4
    i = slot - 8
    return i, i + 4


def apply_usage(face, usage, pts4):
    if usage == "invert":
        face.invert()
    elif usage.startswith("shift"):
        face.shift(int(usage[5:]))
    elif usage.startswith("reorient"):
        j = int(usage[8:])
        face.reorient(pts4[j] + 0.02 * (np.mean(pts4, axis=0) - pts4[j]))


def build(case):
    import classy_blocks as cb

    P = hexa_points(case["frame"])
    kind, slot = case["kind"], case["slot"]
    a, b = slot_corners(slot)
    if kind == "zero_length":
        # wedge-like: top point coincides with the bottom point on this side edge
        P = P.copy()
        P[b] = P[a]
    make, ref = user_curve(kind, P[a], P[b], case["frame"])
    bottom = cb.Face(P[:4])
    top = cb.Face(P[4:])
    if slot < 4:
        bottom.add_edge(slot, make())
        apply_usage(bottom, case["usage"], P[:4])
    elif slot < 8:
        top.add_edge(slot - 4, make())
        apply_usage(top, case["usage"], P[4:])
    loft = cb.Loft(bottom, top)
    if slot >= 8:
        loft.add_side_edge(slot - 8, make())
    if case["usage"] == "op_invert":
        loft.invert()  # same curve between the same points
    elif case["usage"] == "op_mirror":
        n = frame_vec(FRAMES[case["frame"]], [0.3, -1.0, 0.5])
        o = P.mean(axis=0) + frame_vec(FRAMES[case["frame"]], [0.2, 1.4, -0.3])
        loft.mirror(list(n * 1.7), list(o))
        nu = n / np.linalg.norm(n)

        def mir(x):
            x = np.asarray(x, float)
            return x - 2 * float((x - o) @ nu) * nu

        P = np.array([mir(x) for x in P])
        ref = dict(ref)
        for key in ("A", "B", "point", "mid"):
            if key in ref:
                ref[key] = mir(ref[key])
        for key in ("points", "curve_points"):
            if key in ref:
                ref[key] = [mir(x) for x in ref[key]]
    ops = [loft]
    if case["dup"] == "stack":
        # second operation built on the very same Face object
        up = np.cross(P[5] - P[4], P[7] - P[4])
        up = up / np.linalg.norm(up) * 0.6
        ops.append(cb.Loft(top, cb.Face(P[4:] + up)))
    elif case["dup"] != "none":
        A, B = P[a], P[b]
        centre = P.mean(axis=0)
        wdir = (A + B) / 2 - centre
        wdir = wdir / np.linalg.norm(wdir) * 0.9
        h = np.cross(B - A, wdir)
        h = h / np.linalg.norm(h) * 0.7
        if case["dup"] == "same":
            quad = [A, B, B + wdir, A + wdir]
            make2, _ = user_curve(kind, A, B, case["frame"])
        elif case["dup"] == "spline_by_neighbour":
            quad = [B, A, A + wdir, B + wdir]
            make2, _ = user_curve("spline", A, B, case["frame"], flip=True)
            _, ref = user_curve("spline", A, B, case["frame"])
        elif case["dup"] == "neighbour":
            # a second operation that shares the edge without defining it (the usual way: one definition per edge)
            quad = [B, A, A + wdir, B + wdir]
            make2 = lambda: None  # noqa: E731
        else:
            quad = [B, A, A + wdir, B + wdir]
            make2, _ = user_curve(kind, A, B, case["frame"], flip=True)
        f2 = cb.Face(np.array(quad), [make2(), None, None, None])
        loft2 = cb.Loft(f2, f2.copy().translate(h))
        loft2.remove = None
        # the copied top face carries a translated copy of the edge: remove it (only the shared edge is redefined)
        loft2.top_face.remove_edges()
        ops.append(loft2)
    for op in ops:
        for ax in range(3):
            op.chop(ax, count=2)
    mesh = cb.Mesh()
    for op in (ops if case["order"] == 0 else ops[::-1]):
        mesh.add(op)
    return mesh, ops, P, ref, (a, b)


def run_case(case):
    if case.get("what") == "projcalls":
        return run_projcalls(case)
    if case.get("what") == "proj2ops":
        return run_proj2ops(case)
    kind = case["kind"]
    coords = dict(case)
    violations = []

    def bad(clause, detail):
        violations.append({"clause": clause, "coords": coords, "detail": detail})

    mesh, ops, P, ref, (a, b) = build(case)
    if case["dup"] == "spline_by_neighbour":
        kind = "spline"
    path = os.path.join(runner.scratch_dir(), f"c07_{os.getpid()}")
    try:
        mesh.write(path)
        for ev in case.get("after", ""):
            if ev == "W":
                mesh.write(path)
            elif ev == "C":
                mesh.clear()
            elif ev == "B":
                mesh.backport()
    except Exception as err:
        bad("write-raised", f"{type(err).__name__}: {err}")
        return {"violations": violations, "outcome": "raised", "nontrivial": True}
    d = foamdict.parse(open(path).read())
    pos = [np.array(v["pos"]) for v in d["vertices"]]
    A, B = ref["A"], ref["B"]

    def vid(p):
        dd = [float(np.linalg.norm(q - p)) for q in pos]
        return int(np.argmin(dd))

    va, vb = vid(A), vid(B)
    block_edges = set()
    for blk in d["blocks"]:
        for c1, c2 in bm.EDGES:
            block_edges.add(frozenset((blk["v"][c1], blk["v"][c2])))
    # every entry joins an edge of some block, no pair twice
    pairs = [frozenset(e["v"]) for e in d["edges"]]
    if len(set(pairs)) != len(pairs):
        bad("edge-listed-twice", str([e["v"] for e in d["edges"]]))
    for e in d["edges"]:
        if frozenset(e["v"]) not in block_edges:
            bad("entry-not-a-block-edge", f"{e['kind']} {e['v']}")
    mine = [e for e in d["edges"] if frozenset(e["v"]) == frozenset((va, vb))]
    others = [e for e in d["edges"] if frozenset(e["v"]) != frozenset((va, vb))]
    if others:
        bad("unexpected-extra-entries", str([(e["kind"], e["v"]) for e in others]))
    outcome = kind
    if kind in ("line", "collinear_arc", "zero_length"):
        if d["edges"]:
            bad("degenerate-edge-written", f"{kind}: {[(e['kind'], e['v']) for e in d['edges']]}")
        return {"violations": violations, "outcome": outcome + ":absent", "nontrivial": True}
    if len(mine) != 1:
        bad("edge-missing-or-duplicated", f"{len(mine)} entries between vertices {va},{vb}")
        return {"violations": violations, "outcome": outcome + ":missing", "nontrivial": True}
    e = mine[0]
    forward = e["v"][0] == va  # entry lists the vertices in the user's direction
    tol = 2e-6
    if kind in ("spline", "polyline"):
        want_kind = "spline" if kind == "spline" else "polyLine"
        if e["kind"] != want_kind:
            bad("wrong-kind", f"{e['kind']} instead of {want_kind}")
        else:
            want = ref["points"] if forward else ref["points"][::-1]
            got = [np.array(p) for p in e["points"]]
            if len(got) != len(want) or any(np.linalg.norm(g - w) > tol for g, w in zip(got, want)):
                bad("direction-point-order", f"entry {e['kind']} {e['v'][0]} {e['v'][1]} (user's curve runs {va}->{vb}): points {'not ' if len(got) != len(want) else ''}in the order of the listed vertices")
    elif kind == "arc":
        if e["kind"] != "arc" or np.linalg.norm(np.array(e["point"]) - ref["point"]) > tol:
            bad("arc-point-changed", f"{e}")
    elif kind == "origin" or kind in ANGLES:
        if e["kind"] != "arc":
            bad("wrong-kind", e["kind"])
        elif np.linalg.norm(np.array(e["point"]) - ref["mid"]) > 1e-5:
            bad("direction-arc-sense" if kind != "origin" else "origin-arc-midpoint", f"written middle point {e['point']}, middle of the user's arc {ref['mid'].round(6).tolist()} (entry lists {e['v'][0]} {e['v'][1]}, user's arc runs {va}->{vb})")
    elif kind in ("project1", "project2"):
        if e["kind"] != "project" or e["labels"] != ref["labels"]:
            bad("project-labels", f"{e}")
    elif kind in ("oncurve", "oncurve_ends", "oncurve_neg"):
        if e["kind"] != "polyLine":
            bad("wrong-kind", e["kind"])
        else:
            got = [np.array(p) for p in e["points"]]
            start = A if forward else B
            end = B if forward else A
            if np.linalg.norm(got[0] - start) > np.linalg.norm(got[0] - end) or np.linalg.norm(got[-1] - end) > np.linalg.norm(got[-1] - start):
                bad("direction-point-order", "on-curve points do not run from the first listed vertex to the second")
            cp = ref["curve_points"]
            if "param_of" in ref:
                cpa = np.array(cp)
                for g in got:
                    if float(np.min(np.linalg.norm(cpa - g, axis=1))) > 1e-3 * float(np.linalg.norm(B - A)):
                        bad("oncurve-point-off-curve", f"{g}")
                        break
                # the written points cover the parameter range of the two vertices (-1 .. 1), evenly or not, but not
                # less: the first / last one is no further than one step of an even division from its vertex
                ts = [ref["param_of"](g) for g in got]
                if not forward:
                    ts = ts[::-1]
                if min(ts) < -1 - 1e-6 or max(ts) > 1 + 1e-6 or ts[0] > -1 + 2 / 6 + 1e-6 or ts[-1] < 1 - 2 / 6 - 1e-6 or any(b <= a for a, b in zip(ts, ts[1:])):
                    bad("oncurve-parameter-range", f"parameters of the written points {np.round(ts, 4).tolist()}, the vertices are at -1 and 1")
            else:
                for g in got:
                    if min(_seg_dist(g, cp[i], cp[i + 1]) for i in range(len(cp) - 1)) > 1e-5:
                        bad("oncurve-point-off-curve", f"{g}")
                        break
    # edge length used for grading
    if "length" in ref:
        found = 0
        for bi, block in enumerate(mesh.blocks):
            for c1, c2 in bm.EDGES:
                w = block.wires[c1][c2]
                if {w.vertices[0].index, w.vertices[1].index} == {va, vb}:
                    found += 1
                    got_len = w.edge.length
                    if not math.isclose(got_len, ref["length"], rel_tol=ref.get("length_rel", 1e-5)):
                        bad("edge-length-for-grading", f"block {bi}: Edge.length {got_len:.6f}, user's curve {ref['length']:.6f}")
        if not found:
            bad("wire-not-found", "")
    return {"violations": violations, "outcome": outcome + (":fwd" if forward else ":rev"), "nontrivial": kind in DIRECTED or case["dup"] != "none"}


def _seg_dist(p, a, b):
    ab = b - a
    t = float(np.dot(p - a, ab) / np.dot(ab, ab))
    t = min(1.0, max(0.0, t))
    return float(np.linalg.norm(a + t * ab - p))


def _Line():
    from classy_blocks.construct.edges import Line

    return Line()
