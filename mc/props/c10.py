"""C10 - face re-indexing and side/edge/corner addressing hit the intended geometry."""

from __future__ import annotations

import collections
import itertools
import math
import os

import numpy as np

from mc import blockmesh_ref as bm
from mc import foamdict, runner
from mc.domains import FRAMES, frame_apply, jitter_vec

ID = "C10"
LEVEL = "model_checking"
DESIGN_REF = "DESIGN.md 5 C10"
RULE = (
    "part A: explicit-state BFS over histories of {invert, shift(-4..4), reorient(near corner 0..3)} on a real Face "
    "(state = replayed history, canonical key = (point order, edge-datum order), run to the fixed point of the reachable "
    "set; invariants on every transition). part B: complete addressing tables on one general hexahedron per frame: "
    "6 sides and all side pairs for set_patch, 6 sides x flags for project_side, 12 edges x both argument orders + all "
    "invalid pairs for project_edge, 8 corners, 4 side edges, get_face, get_closest_side / get_closest_face / get_normal_face from viewers at 3 distances outside each side, get_patches_at_corner; the written file is "
    "compared with blockMesh's hex convention. non-trivial = every case (all address a distinct entity)"
)
ASSUMPTIONS = ["blockMesh corner/side convention as in mc/blockmesh_ref.py (user guide)"]

QUADS = [
    [(0, 0, 0), (1.3, 0.1, 0.05), (1.1, 0.9, -0.1), (-0.1, 1.2, 0.1)],
    [(2, 1, 1), (2.1, 1.9, 1.7), (1.2, 2.2, 2.5), (1.0, 0.8, 1.4)],
    [(0, 0, 5), (0, 2, 5.3), (-1.5, 2.2, 5.1), (-1.1, -0.2, 4.9)],
]
SIDES = ["bottom", "top", "left", "right", "front", "back"]


def ops_alphabet():
    ops = [("invert",)]
    for k in range(-4, 5):
        ops.append(("shift", k))
    for j in range(4):
        ops.append(("reorient", j))
    return ops


def cases(tier, seed):
    out = []
    for q in range(len(QUADS)):
        out.append({"part": "A", "quad": q})
    frames = [0, 4] if tier == "quick" else list(range(len(FRAMES)))
    if tier == "quick":
        frames = sorted({0, 4, seed % len(FRAMES)})
    for fr in frames:
        for side in SIDES:
            out.append({"part": "B", "frame": fr, "what": "set_patch", "sides": [side]})
            for e in (False, True):
                for p in (False, True):
                    out.append({"part": "B", "frame": fr, "what": "project_side", "side": side, "edges": e, "points": p})
            out.append({"part": "B", "frame": fr, "what": "get_face", "side": side})
            for dist in (0.05, 0.6, 5.0):
                out.append({"part": "B", "frame": fr, "what": "closest", "side": side, "dist": dist})
        for s1, s2 in itertools.combinations(SIDES, 2):
            out.append({"part": "B", "frame": fr, "what": "set_patch", "sides": [s1, s2]})
        for c1 in range(8):
            for c2 in range(8):
                if c1 != c2:
                    out.append({"part": "B", "frame": fr, "what": "project_edge", "c1": c1, "c2": c2})
            out.append({"part": "B", "frame": fr, "what": "project_corner", "corner": c1})
        for i in range(4):
            out.append({"part": "B", "frame": fr, "what": "add_side_edge", "corner": i})
        for nfaces in (2, 3, 4, 5):
            out.append({"part": "B", "frame": fr, "what": "from_series", "faces": nfaces})
        # part C: histories of addressing calls (declaration model: union of what each call addresses)
        pair_frames = frames if tier == "thorough" else frames[:1]
        if fr in pair_frames:
            calls1 = []
            for side in SIDES:
                calls1.append(["project_side", side, True, False])
                calls1.append(["project_side", side, False, True])
            for c1, c2 in bm.EDGES:
                calls1.append(["project_edge", c1, c2])
            for c in (0, 3, 5, 6):
                calls1.append(["project_corner", c])
            for x in calls1:
                for y in calls1:
                    if x is y and x[0] != "project_edge":
                        continue
                    if tier == "quick" and x[0] == "project_edge" and y[0] == "project_edge" and not (set(x[1:3]) & set(y[1:3])):
                        continue
                    out.append({"part": "C", "frame": fr, "calls": [x, y]})
            # the same on a loft whose four bottom edges share ONE Project object, and with one label for every call
            for x in calls1:
                out.append({"part": "C", "frame": fr, "calls": [x], "base": "shared_project"})
                for y in calls1:
                    if x is not y and (x[0], y[0]) != ("project_edge", "project_edge") and x[1] in ("bottom", "front", "left", 0, 1) and (tier == "thorough" or y[1] in ("bottom", "right", 1, 2)):
                        out.append({"part": "C", "frame": fr, "calls": [x, y], "base": "shared_project"})
                        out.append({"part": "C", "frame": fr, "calls": [x, y], "same_label": True})
            if tier == "thorough":
                sides_e = [["project_side", s, True, True] for s in SIDES]
                for x, y, z in itertools.permutations(sides_e, 3):
                    out.append({"part": "C", "frame": fr, "calls": [x, y, z]})
        for order in (0, 1):
            for c in range(8):
                out.append({"part": "D", "frame": fr, "call": ["project_corner", c], "order": order})
            for side in SIDES:
                out.append({"part": "D", "frame": fr, "call": ["project_side", side], "order": order})
        for assign in ([["left", "a"], ["top", "b"], ["front", "c"]], [["right", "a"], ["bottom", "b"], ["back", "c"]], [["left", "a"], ["right", "a"], ["top", "b"]]):
            out.append({"part": "B", "frame": fr, "what": "patches_at_corner", "assign": assign})
    return out


# ----------------------------------------------------------------------------
def make_face(q):
    import classy_blocks as cb

    pts = np.array(QUADS[q], dtype=float)
    return cb.Face(pts, [cb.Project(f"e{i}") for i in range(4)]), pts


def face_state(face, pts):
    order = []
    for p in face.points:
        d = [float(np.linalg.norm(p.position - q)) for q in pts]
        order.append(int(np.argmin(d)) if min(d) < 1e-9 else -1)
    edges = []
    for e in face.edges:
        lab = getattr(e, "label", None)
        if isinstance(lab, list) and len(lab) == 1 and lab[0].startswith("e"):
            edges.append(int(lab[0][1:]))
        else:
            edges.append(-1)
    return tuple(order), tuple(edges)


def apply_op(face, op, pts):
    if op[0] == "invert":
        face.invert()
    elif op[0] == "shift":
        face.shift(op[1])
    else:
        target = pts[op[1]] + 0.05 * (pts.mean(axis=0) - pts[op[1]]) + 0.01 * jitter_vec(op[1])
        face.reorient(target)


def check_transition(before, after, op, normal_before, normal_after):
    """invariants of one transition; returns list of (clause, detail)"""
    bad = []
    po, eo = after
    if sorted(po) != [0, 1, 2, 3]:
        bad.append(("points-changed", f"point order {po}"))
        return bad
    if sorted(eo) != [0, 1, 2, 3]:
        bad.append(("edge-data-lost", f"edge order {eo}"))
        return bad
    for k in range(4):
        joined = {po[k], po[(k + 1) % 4]}
        i = eo[k]
        if joined != {i, (i + 1) % 4}:
            bad.append(("edge-joins-other-points", f"edge datum e{i} (originally {i}-{(i + 1) % 4}) now joins points {sorted(joined)}"))
            break
    pb = before[0]

    def cyc(o):
        i = o.index(0)
        return tuple(o[i:] + o[:i])

    if op[0] == "invert":
        if float(np.dot(normal_before, normal_after)) > -0.999:
            bad.append(("invert-normal-not-flipped", f"{normal_before} -> {normal_after}"))
    else:
        if cyc(list(po)) != cyc(list(pb)):
            bad.append(("cyclic-order-changed", f"{pb} -> {po}"))
        if float(np.dot(normal_before, normal_after)) < 0.999:
            bad.append(("normal-changed", f"{normal_before} -> {normal_after}"))
    if op[0] == "reorient" and po[0] != op[1]:
        bad.append(("reorient-wrong-first-point", f"nearest corner is original point {op[1]}, first point is original point {po[0]}"))
    return bad


def run_part_a(case):
    q = case["quad"]
    alphabet = ops_alphabet()
    violations = []
    face0, pts = make_face(q)
    init = face_state(face0, pts)
    seen = {init}
    frontier = collections.deque([[]])
    transitions = 0
    while frontier:
        hist = frontier.popleft()
        for op in alphabet:
            face, _ = make_face(q)
            for h in hist:
                apply_op(face, h, pts)
            before = face_state(face, pts)
            nb = np.array(face.normal)
            try:
                apply_op(face, op, pts)
            except Exception as err:
                violations.append({"clause": "face-op-raised", "coords": {"quad": q, "history": [list(h) for h in hist], "op": list(op)}, "detail": f"{type(err).__name__}: {err}"})
                continue
            after = face_state(face, pts)
            na = np.array(face.normal)
            transitions += 1
            for clause, detail in check_transition(before, after, op, nb, na):
                violations.append({"clause": clause, "coords": {"quad": q, "history": [list(h) for h in hist], "op": list(op)}, "detail": detail})
            if after not in seen and len(seen) < 600:
                seen.add(after)
                frontier.append(hist + [op])
    return {"violations": violations, "outcome": f"A:states={len(seen)}", "execs": transitions, "states": len(seen), "transitions": transitions, "nontrivial": True}


# ----------------------------------------------------------------------------
def make_loft(frame, base=None):
    import classy_blocks as cb

    pts = []
    for k, (x, y, z) in enumerate(bm.CORNER_XYZ):
        pts.append(np.array([x * 1.2, y * 0.9, z * 1.1]) + 0.08 * jitter_vec(k + 3))
    pts = frame_apply(FRAMES[frame], pts)
    if base == "shared_project":
        # the Face docstring's own idiom: ONE Project object for the four edges of the bottom face
        loft = cb.Loft(cb.Face(pts[:4], [cb.Project("base")] * 4), cb.Face(pts[4:]))
    else:
        loft = cb.Loft(cb.Face(pts[:4]), cb.Face(pts[4:]))
    for a in range(3):
        loft.chop(a, count=1)
    return loft, np.array(pts)


def write_parse(loft):
    import classy_blocks as cb

    mesh = cb.Mesh()
    mesh.add(loft)
    path = os.path.join(runner.scratch_dir(), f"c10_{os.getpid()}")
    mesh.write(path)
    return foamdict.parse(open(path).read())


def corner_of_vertex(d, pts):
    """file vertex index -> corner number (through the single block's hex entry)"""
    blk = d["blocks"][0]
    m = {}
    for c, v in enumerate(blk["v"]):
        m[v] = c
        if np.linalg.norm(np.array(d["vertices"][v]["pos"]) - pts[c]) > 1e-6:
            raise AssertionError("hex corner order differs from the operation's point order")
    return m


def run_part_b(case):
    import classy_blocks as cb
    from classy_blocks.base import exceptions as exc

    fr = case["frame"]
    loft, pts = make_loft(fr)
    what = case["what"]
    coords = {k: v for k, v in case.items() if k != "part"}
    violations = []

    def bad(clause, detail):
        violations.append({"clause": clause, "coords": coords, "detail": detail})

    def expect_clean(d, allow=()):
        if "boundary" not in allow and d["boundary"]:
            bad("unrelated-section-changed", f"boundary {d['boundary']}")
        if "faces" not in allow and d["faces"]:
            bad("unrelated-section-changed", f"faces {d['faces']}")
        if "edges" not in allow and d["edges"]:
            bad("unrelated-section-changed", f"edges {d['edges']}")
        if "vertices" not in allow and any(v["project"] for v in d["vertices"]):
            bad("unrelated-section-changed", "projected vertices")

    outcome = what
    if what == "set_patch":
        sides = case["sides"]
        loft.set_patch(sides if len(sides) > 1 else sides[0], "pp")
        d = write_parse(loft)
        c_of = corner_of_vertex(d, pts)
        expect_clean(d, allow=("boundary",))
        got = sorted(sorted(c_of[v] for v in quad) for p in d["boundary"] if p["name"] == "pp" for quad in p["faces"])
        want = sorted(sorted(bm.FACES[s]) for s in sides)
        if got != want or len(d["boundary"]) != 1:
            bad("set_patch-wrong-side", f"sides {sides}: quads (corner numbers) {got}, expected {want}")
    elif what == "project_side":
        side = case["side"]
        loft.project_side(side, "geo", edges=case["edges"], points=case["points"])
        d = write_parse(loft)
        c_of = corner_of_vertex(d, pts)
        expect_clean(d, allow=("faces", "edges", "vertices"))
        got = [sorted(c_of[v] for v in f["v"]) for f in d["faces"]]
        if got != [sorted(bm.FACES[side])] or d["faces"][0]["label"] != "geo":
            bad("project_side-wrong-side", f"faces {got}, expected {[sorted(bm.FACES[side])]}")
        want_edges = set()
        if case["edges"]:
            cs = set(bm.FACES[side])
            want_edges = {frozenset(e) for e in bm.EDGES if set(e) <= cs}
        got_edges = {frozenset(c_of[v] for v in e["v"]) for e in d["edges"] if e["kind"] == "project" and e["labels"] == ["geo"]}
        if got_edges != want_edges or len(d["edges"]) != len(want_edges):
            bad("project_side-wrong-edges", f"projected edges {sorted(map(sorted, got_edges))} (+{len(d['edges']) - len(got_edges)} other), expected {sorted(map(sorted, want_edges))}")
        want_pts = set(bm.FACES[side]) if case["points"] else set()
        got_pts = {c_of[i] for i, v in enumerate(d["vertices"]) if v["project"]}
        if got_pts != want_pts or any(v["project"] not in ([], ["geo"]) for v in d["vertices"]):
            bad("project_side-wrong-points", f"projected corners {sorted(got_pts)}, expected {sorted(want_pts)}")
    elif what == "project_edge":
        c1, c2 = case["c1"], case["c2"]
        valid = bm.edge_axis(c1, c2) is not None
        try:
            loft.project_edge(c1, c2, "geo")
            raised = None
        except Exception as err:
            raised = type(err).__name__
        if not valid:
            outcome = "project_edge-invalid"
            if raised is None:
                # silently accepted: which edge did it hit?
                d = write_parse(loft)
                bad("project_edge-invalid-pair-accepted", f"corners {c1}-{c2} are not an edge, yet {[(e['kind'], e['v']) for e in d['edges']]} was written")
        else:
            if raised is not None:
                bad("project_edge-valid-pair-raised", raised)
            else:
                d = write_parse(loft)
                c_of = corner_of_vertex(d, pts)
                expect_clean(d, allow=("edges",))
                got = [sorted(c_of[v] for v in e["v"]) for e in d["edges"] if e["kind"] == "project"]
                if got != [sorted((c1, c2))] or len(d["edges"]) != 1 or d["edges"][0]["labels"] != ["geo"]:
                    bad("project_edge-wrong-edge", f"written {got}, expected {[sorted((c1, c2))]}")
    elif what == "project_corner":
        c = case["corner"]
        loft.project_corner(c, "geo")
        d = write_parse(loft)
        c_of = corner_of_vertex(d, pts)
        expect_clean(d, allow=("vertices",))
        got = sorted(c_of[i] for i, v in enumerate(d["vertices"]) if v["project"])
        if got != [c]:
            bad("project_corner-wrong-corner", f"projected corners {got}, expected {[c]}")
    elif what == "add_side_edge":
        i = case["corner"]
        mid = (pts[i] + pts[i + 4]) / 2 + 0.2 * np.cross(pts[i + 4] - pts[i], jitter_vec(1))
        loft.add_side_edge(i, cb.Arc(mid))
        d = write_parse(loft)
        c_of = corner_of_vertex(d, pts)
        expect_clean(d, allow=("edges",))
        got = [sorted(c_of[v] for v in e["v"]) for e in d["edges"]]
        if got != [[i, i + 4]] or d["edges"][0]["kind"] != "arc" or np.linalg.norm(np.array(d["edges"][0]["point"]) - mid) > 1e-6:
            bad("add_side_edge-wrong-edge", f"written {got}, expected {[[i, i + 4]]}")
    elif what == "from_series":
        # Loft.from_series: bottom and top are the first and the last face, the side edge at corner i passes through
        # point i of every face in between (arc for one, spline for more), in the order of the list
        n = case["faces"]
        inner = []
        for k in range(1, n - 1):
            w = k / (n - 1)
            q = [pts[i] * (1 - w) + pts[i + 4] * w + (0.15 + 0.05 * i) * math.sin(math.pi * w) * jitter_vec(i + 7 + 3 * k) for i in range(4)]
            inner.append(np.array(q))
        series = [cb.Face(pts[:4])] + [cb.Face(q) for q in inner] + [cb.Face(pts[4:])]
        loft = cb.Loft.from_series(series)
        for a in range(3):
            loft.chop(a, count=1)
        d = write_parse(loft)
        c_of = corner_of_vertex(d, pts)
        expect_clean(d, allow=("edges",))
        got = {}
        for e in d["edges"]:
            cs = [c_of[v] for v in e["v"]]
            got[tuple(sorted(cs))] = (e, cs[0] > cs[1])
        want_keys = [(i, i + 4) for i in range(4)] if n > 2 else []
        if sorted(got) != want_keys:
            bad("from_series-wrong-edges", f"{n} faces: edges between corners {sorted(got)}, expected {want_keys}")
        else:
            for i in range(4 if n > 2 else 0):
                e, rev = got[(i, i + 4)]
                if n == 3:
                    if e["kind"] != "arc" or np.linalg.norm(np.array(e["point"]) - inner[0][i]) > 1e-6:
                        bad("from_series-edge-misses-its-corner", f"3 faces: side edge {i}-{i + 4} is {e['kind']} through {e.get('point')}, the middle face has its point {i} at {inner[0][i].round(6).tolist()}")
                else:
                    want = [q[i] for q in inner]
                    if rev:
                        want = want[::-1]
                    gp = np.array(e.get("points", []))
                    if e["kind"] != "spline" or gp.shape != np.array(want).shape or np.max(np.linalg.norm(gp - np.array(want), axis=1)) > 1e-6:
                        bad("from_series-edge-misses-its-corner", f"{n} faces: side edge {i}-{i + 4}: {e['kind']} {gp.round(4).tolist()}, points {i} of the faces in between {np.round(want, 4).tolist()}")
    elif what == "get_face":
        side = case["side"]
        face = loft.get_face(side)
        got = []
        for p in face.point_array:
            dd = [float(np.linalg.norm(p - q)) for q in pts]
            got.append(int(np.argmin(dd)) if min(dd) < 1e-9 else -1)
        if sorted(got) != sorted(bm.FACES[side]):
            bad("get_face-wrong-corners", f"{side}: corners {got}, expected set {sorted(bm.FACES[side])}")
        else:
            # the corners must come in a cyclic order around the quad (a usable face)
            ring = list(bm.FACES[side])
            k = ring.index(got[0])
            fw = ring[k:] + ring[:k]
            bw = [fw[0]] + fw[1:][::-1]
            if got not in (fw, bw):
                bad("get_face-not-a-ring", f"{side}: corners {got}")
    elif what == "closest":
        # a viewer straight outside the centre of one side: get_closest_side / get_closest_face / get_normal_face must
        # all address that side (asked twice and in both orders on one operation: the queries must not disturb it)
        side = case["side"]
        cs = list(bm.FACES[side])
        centre = pts[cs].mean(axis=0)
        outward = centre - pts.mean(axis=0)
        viewer = centre + case["dist"] * outward / np.linalg.norm(outward)
        other = min(float(np.linalg.norm(viewer - pts[list(bm.FACES[o])].mean(axis=0))) for o in SIDES if o != side)
        unambiguous = float(np.linalg.norm(viewer - centre)) < 0.8 * other

        def corners_of(face):
            got = []
            for p in face.point_array:
                dd = [float(np.linalg.norm(p - q)) for q in pts]
                got.append(int(np.argmin(dd)) if min(dd) < 1e-9 else -1)
            return got

        before = np.array(loft.point_array)
        for rnd in (1, 2):
            nf = loft.get_normal_face(viewer)
            if sorted(corners_of(nf)) != sorted(cs):
                bad("get_normal_face-wrong-side", f"round {rnd}: viewer outside {side}: face with corners {corners_of(nf)}")
            elif float(np.dot(nf.normal, viewer - nf.center)) <= 0:
                bad("get_normal_face-faces-away", f"round {rnd}: {side}: returned face's normal points away from the viewer")
            if unambiguous:
                got_side = loft.get_closest_side(viewer)
                if got_side != side:
                    bad("get_closest_side-wrong", f"round {rnd}: viewer {case['dist']} outside {side}: {got_side}")
                cf = loft.get_closest_face(viewer)
                if sorted(corners_of(cf)) != sorted(cs):
                    bad("get_closest_face-wrong", f"round {rnd}: viewer outside {side}: corners {corners_of(cf)}")
        if not np.array_equal(before, np.array(loft.point_array)):
            bad("query-moved-the-operation", f"{side}: point_array changed by the queries")
        if unambiguous:
            loft.set_patch(loft.get_closest_side(viewer), "pp")
            d = write_parse(loft)
            c_of = corner_of_vertex(d, pts)
            expect_clean(d, allow=("boundary",))
            got = sorted(sorted(c_of[v] for v in quad) for p in d["boundary"] if p["name"] == "pp" for quad in p["faces"])
            if got != [sorted(cs)]:
                bad("set_patch-wrong-side", f"closest side of a viewer outside {side}: quads {got}")
    elif what == "patches_at_corner":
        for side, name in case["assign"]:
            loft.set_patch(side, name)
        for c in range(8):
            want = {name for side, name in case["assign"] if c in bm.FACES[side]}
            got = set(loft.get_patches_at_corner(c))
            if got != want:
                bad("patches_at_corner-wrong", f"corner {c}: {sorted(got)}, expected {sorted(want)}")
    return {"violations": violations, "outcome": "B:" + outcome, "execs": 1, "states": 1, "transitions": 1, "nontrivial": True}


def run_part_c(case):
    """a history of addressing calls with distinct labels; expected = union of what each call addresses"""
    loft, pts = make_loft(case["frame"], case.get("base"))
    coords = {"frame": case["frame"], "calls": case["calls"]}
    for key in ("base", "same_label"):
        if case.get(key):
            coords[key] = case[key]
    violations = []
    faces = {}
    edges = {}
    corners = {}
    expect_error = False
    if case.get("base") == "shared_project":
        for ed in bm.EDGES[:2] + [(1, 2), (0, 3)]:
            if set(ed) <= {0, 1, 2, 3}:
                edges.setdefault(frozenset(ed), []).append("base")
    for k, call in enumerate(case["calls"]):
        lab = "g" if case.get("same_label") else f"g{k}"
        if call[0] == "project_side":
            _, side, e, p = call
            faces[side] = lab
            cs = set(bm.FACES[side])
            if e:
                for ed in bm.EDGES:
                    if set(ed) <= cs:
                        edges.setdefault(frozenset(ed), []).append(lab)
            if p:
                for c in cs:
                    corners.setdefault(c, []).append(lab)
        elif call[0] == "project_edge":
            edges.setdefault(frozenset(call[1:3]), []).append(lab)
        else:
            corners.setdefault(call[1], []).append(lab)
    if any(len(set(v)) > 2 for v in edges.values()):
        expect_error = True
    try:
        for k, call in enumerate(case["calls"]):
            lab = "g" if case.get("same_label") else f"g{k}"
            if call[0] == "project_side":
                loft.project_side(call[1], lab, edges=call[2], points=call[3])
            elif call[0] == "project_edge":
                loft.project_edge(call[1], call[2], lab)
            else:
                loft.project_corner(call[1], lab)
        d = write_parse(loft)
    except Exception as err:
        if not expect_error:
            violations.append({"clause": "addressing-sequence-raised", "coords": coords, "detail": f"{type(err).__name__}: {err}"})
        return {"violations": violations, "outcome": "C:raised", "execs": 1, "states": 1, "transitions": len(case["calls"]), "nontrivial": True}
    if expect_error:
        violations.append({"clause": "edge-projected-to-three-surfaces-accepted", "coords": coords, "detail": str(d["edges"])})
        return {"violations": violations, "outcome": "C:accepted3", "execs": 1, "states": 1, "transitions": len(case["calls"]), "nontrivial": True}
    c_of = corner_of_vertex(d, pts)
    got_faces = {tuple(sorted(c_of[v] for v in f["v"])): f["label"] for f in d["faces"]}
    want_faces = {tuple(sorted(bm.FACES[s])): lab for s, lab in faces.items()}
    if got_faces != want_faces or len(d["faces"]) != len(want_faces):
        violations.append({"clause": "sequence-faces", "coords": coords, "detail": f"written {got_faces}, declared {want_faces}"})
    got_edges = {}
    for e in d["edges"]:
        key = tuple(sorted(c_of[v] for v in e["v"]))
        if key in got_edges or e["kind"] != "project":
            violations.append({"clause": "sequence-edges", "coords": coords, "detail": f"unexpected entry {e}"})
        got_edges[key] = sorted(e.get("labels", []))
    want_edges = {tuple(sorted(k)): sorted(set(v)) for k, v in edges.items()}
    if got_edges != want_edges:
        diff = {k: (got_edges.get(k), want_edges.get(k)) for k in set(got_edges) | set(want_edges) if got_edges.get(k) != want_edges.get(k)}
        violations.append({"clause": "sequence-edges", "coords": coords, "detail": f"edge (corner pair): (written labels, declared labels) = {diff}"})
    got_pts = {c_of[i]: sorted(v["project"]) for i, v in enumerate(d["vertices"]) if v["project"]}
    # (a corner is projected to a SET of surfaces: the same label declared through two sides is one surface)
    want_pts = {c: sorted(set(v)) for c, v in corners.items()}
    if got_pts != want_pts:
        violations.append({"clause": "sequence-corners", "coords": coords, "detail": f"written {got_pts}, declared {want_pts}"})
    return {"violations": violations, "outcome": "C:" + "+".join(c[0] for c in case["calls"]), "execs": 1, "states": 1, "transitions": len(case["calls"]), "nontrivial": True}


def run_part_d(case):
    """two operations sharing a face: addressing a corner/side of the SECOND one must still reach its vertices"""
    import classy_blocks as cb

    loft, pts = make_loft(case["frame"])
    # second operation on the 'right' side of the first (shares corners 1, 2, 6, 5 of the first = 0, 3, 7, 4 of the second)
    shift = pts[1] - pts[0]
    p2 = np.array([pts[1], pts[1] + shift, pts[2] + shift, pts[2], pts[5], pts[5] + shift, pts[6] + shift, pts[6]])
    second = cb.Loft(cb.Face(p2[:4]), cb.Face(p2[4:]))
    for a in range(3):
        second.chop(a, count=1)
    violations = []
    coords = {"frame": case["frame"], "call": case["call"], "order": case["order"]}
    call = case["call"]
    want = set()
    if call[0] == "project_corner":
        second.project_corner(call[1], "geo")
        want = {call[1]}
    else:
        second.project_side(call[1], "geo", points=True)
        want = set(bm.FACES[call[1]])
    mesh = cb.Mesh()
    for op in ((loft, second) if case["order"] == 0 else (second, loft)):
        mesh.add(op)
    path = os.path.join(runner.scratch_dir(), f"c10d_{os.getpid()}")
    mesh.write(path)
    d = foamdict.parse(open(path).read())
    V = [np.array(v["pos"]) for v in d["vertices"]]
    got = set()
    for i, v in enumerate(d["vertices"]):
        if v["project"]:
            dd = [float(np.linalg.norm(V[i] - q)) for q in p2]
            if min(dd) < 1e-6:
                got.add(int(np.argmin(dd)))
            else:
                got.add(-1)
    if got != want:
        violations.append({"clause": "shared-corner-projection", "coords": coords, "detail": f"projected corners of the second operation: {sorted(got)}, addressed {sorted(want)}"})
    return {"violations": violations, "outcome": "D:" + call[0], "execs": 1, "states": 1, "transitions": 1, "nontrivial": True}


def run_case(case):
    if case["part"] == "A":
        return run_part_a(case)
    if case["part"] == "D":
        return run_part_d(case)
    if case["part"] == "C":
        return run_part_c(case)
    return run_part_b(case)
