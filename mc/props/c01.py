"""C01 - blocks that share an edge agree on its cell count; conflicts are rejected."""

from __future__ import annotations

import itertools

import numpy as np

from mc import control, gradlab
from mc.domains import HEXSYM24, HEXSYM_GEN4, contact, lattice_cells, sub_assemblies

ID = "C01"
LEVEL = "model_checking"
DESIGN_REF = "DESIGN.md 5 C01"
RULE = (
    "case = (sub-assembly of <=k lattice cells, corner numbering per block from the 24 rotations, chop placement: every "
    "(block, direction) in {none, count 2, count 3} (+ a computed-count chop, + a two-section chop with unequal counts)), executed by assemble+write on the real "
    "library, by a second write() of the same mesh when the first one was refused for a conflict, and (size-based chop) by a write() after the written mesh was stretched x2; expected verdict from "
    "the edge-family union-find model. non-trivial = the blocks share at least one edge "
    "and at least one direction is chopped"
    " Variants: two sections with identical arguments, blocks of very different sizes (non-uniform lattice spacing), chops arriving through a chop - unchop - chop history."
)
ASSUMPTIONS = [
    "unit-cube lattice cells (topology decides count agreement; geometry variation belongs to C04)",
    "insertion order = cell order, default schedule (order/schedule dependence belongs to C02)",
]
SINGLE_OUTCOME_OK = False

VALUES = [None, {"count": 2}, {"count": 3}]
SPACINGS = {
    "long_short_x": [[0, 6, 7, 13, 14], [0, 1, 2, 3, 4], [0, 1, 2, 3, 4]],
    "short_long_y": [[0, 1, 2, 3, 4], [0, 0.4, 7, 7.5, 15], [0, 1, 2, 3, 4]],
}
COMPUTED = {"start_size": 0.3, "c2c_expansion": 1.0}  # 1/0.3 = 3.33 -> 4 cells
RESIZE = {"start_size": 0.34, "c2c_expansion": 1.0}  # 1/0.34 = 2.94 -> 3 cells; on an edge of length 2: 5.88 -> 6 cells


def worker_init():
    control.install_choice_sets()
    control.install_progress_monitor()


def shares_edge(cells):
    return any(contact(a, b) in ("face", "edge") for a, b in itertools.combinations(cells, 2))


def placements(ndirs, wmin, wmax):
    for pl in itertools.product(range(3), repeat=ndirs):
        w = sum(1 for x in pl if x)
        if wmin <= w <= wmax:
            yield list(pl)


def cases(tier, seed):
    out = []
    q = tier == "quick"
    lat = lattice_cells(2, 2, 2)
    gens = [HEXSYM24.index(p) for p in HEXSYM_GEN4]

    def add(sub, nums, pl):
        c = {"cells": [list(c) for c in sub], "numbering": list(nums), "placement": pl}
        if len(sub) >= 3:
            # families the placement leaves un-chopped get a default chop (count 2) on their
            # lowest member, so that three- and four-block cases end in "ok" or "conflict"
            c["complete"] = True
        out.append(c)

    # k = 1
    for pl in placements(3, 0, 3):
        add([(0, 0, 0)], [0], pl)
    # k = 2
    for sub in sub_assemblies(lat, 2, 2):
        if not shares_edge(sub):
            for pl in placements(6, 0, 2 if q else 6):
                add(sub, [0, 0], pl)
            continue
        full = sorted(set(gens + [(seed * 5 + 7) % 24])) if q else range(24)
        for num in full:
            for pl in placements(6, 0, 6):
                add(sub, [0, num], pl)
        if q:
            for num in range(24):
                if num not in full:
                    for pl in placements(6, 2, 2):
                        add(sub, [0, num], pl)
    # k = 3: 3x2x1 lattice (conflict through an un-chopped middle block) and 2x2x2 triples
    t321 = [s for s in sub_assemblies(lattice_cells(3, 2, 1), 3, 3) if shares_edge(s)]
    t222 = [s for s in sub_assemblies(lat, 3, 3) if shares_edge(s) and s not in t321]
    one_block = [[0, g, 0] for g in gens[1:]] + [[0, 0, g] for g in gens[1:]]
    for sub in t321:
        for pl in placements(9, 2, 3 if q else 4):
            add(sub, [0, 0, 0], pl)
        for nums in one_block:
            for pl in placements(9, 2, 2):
                add(sub, nums, pl)
    for sub in t222:
        for pl in placements(9, 2, 2 if q else 4):
            add(sub, [0, 0, 0], pl)
    if not q:
        for sub in t321 + t222:
            for a in gens:
                for b in gens:
                    if (a, b) != (0, 0):
                        for pl in placements(9, 2, 3):
                            add(sub, [0, a, b], pl)
            for a in range(24):
                if a not in gens:
                    for pl in placements(9, 2, 2):
                        add(sub, [0, a, 0], pl)
        # k = 4: square around a 4-fold shared edge and a row of 4
        for sub in ([(0, 0, 0), (1, 0, 0), (0, 1, 0), (1, 1, 0)], [(0, 0, 0), (1, 0, 0), (2, 0, 0), (3, 0, 0)]):
            for pl in placements(12, 2, 4):
                add(sub, [0, 0, 0, 0], pl)
    # computed-count variant: one direction chopped "count 3" uses start_size (-> 4 cells) instead
    extra = []
    for c in out[:: (5 if q else 3)]:
        if 2 in c["placement"]:
            extra.append(dict(c, computed=c["placement"].index(2)))
    # multi-section variant: one direction chopped "count 3" is chopped in two sections of 1 + 2 cells instead
    for c in out[2 :: (5 if q else 3)]:
        if "computed" not in c and 2 in c["placement"]:
            extra.append(dict(c, multi=len(c["placement"]) - 1 - c["placement"][::-1].index(2)))
    # ... or in two sections given by the same keyword arguments (two halves of 2 cells each where "count 2" stood)
    for c in out[3 :: (5 if q else 3)]:
        if 1 in c["placement"]:
            extra.append(dict(c, multi_eq=c["placement"].index(1)))
    # resize variant: one direction chopped "count 3" asks for a cell size that gives 3 cells instead; after a successful
    # write the assembled mesh is stretched x2 along that direction and written again (the size now gives 6 cells)
    for c in out[1 :: (5 if q else 3)]:
        if 2 in c["placement"]:
            extra.append(dict(c, resize=c["placement"].index(2)))
    # the chops arrive through a chop - unchop - chop history on every axis of every block
    for c in out[5 :: (9 if q else 5)]:
        extra.append(dict(c, rechop=True))
    # blocks of very different sizes (counts only): a long block followed by a short one and the other way round,
    # along x and along y
    for c in out[4 :: (15 if q else 9)]:
        for sp in SPACINGS:
            extra.append(dict(c, spacing=sp))
    out += extra
    out.sort(key=lambda c: (len(c["cells"]), sum(1 for x in c["placement"] if x)))
    return out


def bounds(tier):
    return {"max_blocks": 3 if tier == "quick" else 4, "values_per_direction": "none|count 2|count 3 (+computed count 4, +two sections of 1+2 cells, +two equal sections of 2+2 cells)"}


def script_of(case):
    cells = [tuple(c) for c in case["cells"]]
    chops = []
    for idx, val in enumerate(case["placement"]):
        if val:
            kw = dict(VALUES[val])
            if case.get("computed") == idx:
                kw = dict(COMPUTED)
            if case.get("resize") == idx:
                kw = dict(RESIZE)
            if case.get("multi_eq") == idx:
                chops.append([idx // 3, idx % 3, {"length_ratio": 0.5, "count": 2}])
                kw = {"length_ratio": 0.5, "count": 2}
            if case.get("multi") == idx:
                chops.append([idx // 3, idx % 3, {"length_ratio": 0.4, "count": 1}])
                kw = {"length_ratio": 0.6, "count": 2}
            chops.append([idx // 3, idx % 3, kw])
    script = {"cells": cells, "numbering": case["numbering"], "chops": chops, "order": list(range(len(cells)))}
    if case.get("spacing"):
        script["geometry"] = {"spacing": SPACINGS[case["spacing"]]}
    if case.get("rechop"):
        script["rechop"] = True
    if case.get("complete"):
        fam = gradlab.Families(script)
        chopped = {fam.find((b, g)) for b, g, _ in chops}
        for root in sorted(fam.classes()):
            if root not in chopped:
                chops.append([root[0], root[1], {"count": 2}])
    return script


def judge(case, coords, verdict, fam_counts, fam, kind, payload, mesh, tag="", scale=None):
    """oracle for one write() of a mesh whose chops have the given model verdict"""
    violations = []
    if kind.startswith("livelock"):
        # termination is C02's clause; here it only means "no file"
        outcome = "livelock"
    elif kind.startswith("ok"):
        outcome = "written"
        d = gradlab.parse_ok(payload)
        by_edge = gradlab.file_edge_counts(d)
        for key, lst in by_edge.items():
            counts = {c for _, _, c in lst}
            if len(counts) > 1:
                violations.append(
                    {
                        "clause": "i-shared-edge-count-mismatch" + tag,
                        "coords": coords,
                        "detail": f"vertices {sorted(key)}: (block, axis, count) = {lst}; blockMesh rejects inconsistent number of points on a shared edge",
                    }
                )
                break
        for bi, blk in enumerate(d["blocks"]):
            if blk["kind"] == "edgeGrading":
                for k, item in enumerate(blk["grading"]):
                    if len(item) > 1 and int(round(sum(s[1] for s in item))) != blk["counts"][k // 4]:
                        violations.append({"clause": "i-section-counts-vs-block-count" + tag, "coords": coords, "detail": f"block {bi} edge {k}: {item} vs {blk['counts']}"})
        if "conflict" in verdict:
            violations.append(
                {
                    "clause": "ii-conflict-written-silently" + tag,
                    "coords": coords,
                    "detail": "two chops demand different counts in one edge family, yet a dictionary was written",
                }
            )
        if verdict == "ok":
            # every direction carries its family's count
            sc = scale or (1, 1, 1)
            pos = [tuple(int(round(x / sc[i])) for i, x in enumerate(v["pos"])) for v in d["vertices"]]
            if case.get("spacing"):
                table = SPACINGS[case["spacing"]]
                pos = [tuple(min(range(len(table[i])), key=lambda k: abs(table[i][k] - x)) for i, x in enumerate(v["pos"])) for v in d["vertices"]]
            cells = [tuple(c) for c in case["cells"]]
            for blk in d["blocks"]:
                ids = [pos[i] for i in blk["v"]]
                cell = tuple(min(p[i] for p in ids) for i in range(3))
                b = cells.index(cell)
                for a, end in enumerate((1, 3, 4)):
                    g = [i for i in range(3) if ids[0][i] != ids[end][i]][0]
                    want = fam_counts[fam.find((b, g))]
                    if blk["counts"][a] != want:
                        violations.append({"clause": "iii-count-not-family-count" + tag, "coords": coords, "detail": f"cell {cell} global direction {g}: written {blk['counts'][a]}, family count {want}"})
    else:
        outcome = payload
        if verdict == "ok":
            violations.append({"clause": "iii-consistent-but-rejected" + tag, "coords": coords, "detail": f"consistent and complete chops, writing raised {payload}"})
        elif verdict == "conflict" and payload != "InconsistentGradingsError":
            violations.append({"clause": "ii-conflict-wrong-error" + tag, "coords": coords, "detail": f"conflicting chops, writing raised {payload}"})
        elif verdict == "conflict+undefined" and payload not in ("InconsistentGradingsError", "UndefinedGradingsError"):
            violations.append({"clause": "ii-conflict-wrong-error" + tag, "coords": coords, "detail": f"conflicting chops, writing raised {payload}"})
        if "partial" in kind:
            violations.append({"clause": "partial-file" + tag, "coords": coords, "detail": "output modified although writing failed"})
        if "conflict" in verdict:
            # the user's obvious next step is to call write() again on the same mesh: "whenever writing succeeds" covers
            # that call too
            kind2, payload2 = gradlab.write_and_observe(mesh)
            if kind2.startswith("ok"):
                by_edge = gradlab.file_edge_counts(gradlab.parse_ok(payload2))
                worst = [lst for lst in by_edge.values() if len({c for _, _, c in lst}) > 1]
                violations.append(
                    {
                        "clause": "ii-conflict-written-on-retry" + tag,
                        "coords": coords,
                        "detail": f"the first write() raised {payload}, a second write() of the same mesh produced a dictionary; edges with differing counts: {worst[:1]}",
                    }
                )
            outcome += "|retry:" + (payload2 if not kind2.startswith("ok") else "written")
    return violations, outcome


def run_case(case):
    script = script_of(case)
    verdict, fam_counts, fam = gradlab.expected(script)
    mesh, _ = gradlab.build_mesh(script)
    kind, payload = gradlab.write_and_observe(mesh)
    coords = {k: case[k] for k in ("cells", "numbering", "placement")}
    coords["complete"] = bool(case.get("complete"))
    for k in ("computed", "multi", "multi_eq", "resize", "spacing", "rechop"):
        if k in case:
            coords[k] = case[k]
    coords["verdict"] = verdict
    violations, outcome = judge(case, coords, verdict, fam_counts, fam, kind, payload, mesh)
    execs = 1
    if "resize" in case and kind.startswith("ok"):
        # the written mesh is stretched x2 along the direction whose chop gives a cell size, and written again: that
        # chop now asks for 6 cells, every count-based chop for what it asked before
        g = case["resize"] % 3
        for v in mesh.vertices:
            p = np.array(v.position, dtype=float)
            p[g] *= 2.0
            v.move_to(p)
        script2 = dict(script, chops=[[b, gg, ({"count": 6} if kw == RESIZE else kw)] for b, gg, kw in script["chops"]])
        verdict2, fam_counts2, fam2 = gradlab.expected(script2)
        kind2, payload2 = gradlab.write_and_observe(mesh)
        scale = [1.0, 1.0, 1.0]
        scale[g] = 2.0
        v2, outcome2 = judge(case, dict(coords, verdict2=verdict2), verdict2, fam_counts2, fam2, kind2, payload2, mesh, tag="-after-resize", scale=scale)
        violations += v2
        outcome += f"|resized:{verdict2}|{outcome2}"
        execs += 1
    nontrivial = shares_edge([tuple(c) for c in case["cells"]]) and any(case["placement"])
    return {"violations": violations, "outcome": f"{verdict}|{outcome}", "nontrivial": nontrivial, "execs": execs}
