"""C16 - curve points, lengths and closest-parameter queries are mutually consistent."""

from __future__ import annotations

import math
import os

import numpy as np

from mc import foamdict, runner
from mc.domains import FRAMES, frame_apply, jitter_vec

ID = "C16"
LEVEL = "exploration"
DESIGN_REF = "DESIGN.md 5 C16"
RULE = (
    "case = (curve kind incl. equalize on/off, point set with uneven spacing from a fixed table, frame); inside, all "
    "ordered parameter pairs/triples of an 11-point grid (integer grid for discrete curves) for discretize end points, "
    "length additivity/symmetry/polyline reference, all defining points for interpolation, a table of query points "
    "displaced 0 / 1 % / 10 % off the curve for closest-parameter queries (vs a 2001-point dense sampling), and OnCurve "
    "edges between lattice parameter pairs read back from the written file; the same on curve objects that were evaluated "
    "and then translated/rotated/scaled/mirrored (histories of <= 2 steps). non-trivial = a distinct evaluated relation"
    " Kinds analytic_neg / circle_neg: parameter 0 inside the range."
)
ASSUMPTIONS = [
    "AnalyticCurve.get_length is by definition a 100-segment polyline: additivity compared to rel 1e-3; point-defined curves to rel 1e-9",
    "queries stay away from the seam of closed curves and from the medial axis",
]

POINT_SETS = {
    "uneven6": [[0, 0, 0], [0.05, 0.02, 0], [0.15, 0.1, 0.05], [1.2, 0.4, 0.1], [1.5, 1.6, 0.3], [1.55, 1.7, 0.35]],
    "zigzag5": [[0, 0, 0], [1, 0.2, 0], [1.1, 1.5, 0.2], [0.2, 1.6, 0.5], [0.1, 2.9, 0.4]],
    "three": [[0, 0, 0], [0.1, 0.05, 0.0], [2.0, 0.5, 0.3]],
    # two long legs 0.5 apart joined by a short turn: another branch of the curve passes much closer to a point of
    # one leg than the spacing of any fixed number of samples along the curve
    "uturn": [[0, 0, 0], [25, 0, 0], [50, 0, 0], [75, 0, 0], [100, 0, 0], [100.3, 0.25, 0], [100, 0.5, 0], [75, 0.5, 0], [50, 0.5, 0], [25, 0.5, 0], [3, 0.5, 0]],
    "eight": [[0, 0, 0], [0.3, 0.1, 0], [0.5, 0.4, 0.1], [0.55, 0.45, 0.1], [1.5, 0.5, 0.2], [1.7, 1.2, 0.2], [1.75, 1.3, 0.3], [3.0, 1.5, 0.3]],
}
KINDS = ["discrete", "linear_eq", "linear_raw", "spline_eq", "spline_raw", "analytic", "analytic_neg", "line", "line_ext", "line_narrow", "circle", "circle_neg"]


def cases(tier, seed):
    out = []
    frames = [0, 4] if tier == "quick" else list(range(len(FRAMES)))
    if tier == "quick":
        frames = sorted({0, 1 + seed % 7})
    for kind in KINDS:
        sets = list(POINT_SETS) if kind in ("discrete", "linear_eq", "linear_raw", "spline_eq", "spline_raw") else ["-"]
        for ps in sets:
            if kind.startswith("spline") and ps == "three":
                continue
            for fr in frames:
                out.append({"kind": kind, "points": ps, "frame": fr})
    # the same relations on a curve object that was evaluated (caches filled) and then transformed: every history
    # of <= 2 steps over {T translate, R rotate, S scale, M mirror}
    hist = [(a,) for a in "TRSM"] + [(a, b) for a in "TRSM" for b in "TRSM"]
    if tier == "quick":
        hist = [(a,) for a in "TRSM"] + [("T", b) for b in "RSM"] + [(b, "T") for b in "RSM"]
    for kind in KINDS:
        if kind.startswith("analytic"):
            continue  # documented as not transformable
        sets = ["-"] if kind in ("line", "line_ext", "line_narrow", "circle", "circle_neg") else (list(POINT_SETS) if tier == "thorough" else ["uneven6", "zigzag5"])
        for ps in sets:
            if kind.startswith("spline") and ps == "three":
                continue  # (a cubic spline needs four points; as in the first loop)
            for h in hist:
                for pre in ((1,) if tier == "quick" else (0, 1)):
                    out.append({"kind": kind, "points": ps, "frame": frames[-1], "history": "".join(h), "pre": pre})
    return out


HIST_T = {
    "T": {"kind": "translate", "d": (0.7, -1.2, 0.4)},
    "R": {"kind": "rotate", "angle": 0.8, "axis": (1.0, 2.0, 3.0), "origin": (0.5, -0.3, 1.1)},
    "S": {"kind": "scale", "ratio": 1.7, "origin": (1.0, 1.0, -2.0)},
    "M": {"kind": "mirror", "normal": (1.0, -2.0, 0.5), "origin": (0.3, 0.8, -0.6)},
}


def make_curve(case):
    from mc.props import c09

    curve, pts = make_curve0(case)
    if case.get("history"):
        if case.get("pre"):
            lo, hi = curve.bounds
            curve.discretize()
            curve.get_length(lo, hi)
            curve.get_closest_param(curve.get_point((lo + hi) / 2))
        for op in case["history"]:
            t = HIST_T[op]
            L, b, _ = c09.affine_of(t, np.zeros(3))
            c09.apply_method(curve, t)
            if pts is not None:
                pts = np.asarray(pts) @ L.T + b
    return curve, pts


def make_curve0(case):
    import classy_blocks as cb

    fr = case["frame"]
    kind = case["kind"]
    if case["points"] != "-":
        pts = frame_apply(FRAMES[fr], POINT_SETS[case["points"]])
    if kind == "discrete":
        return cb.DiscreteCurve(pts), pts
    if kind == "linear_eq":
        return cb.LinearInterpolatedCurve(pts), pts
    if kind == "linear_raw":
        return cb.LinearInterpolatedCurve(pts, equalize=False), pts
    if kind == "spline_eq":
        return cb.SplineInterpolatedCurve(pts), pts
    if kind == "spline_raw":
        return cb.SplineInterpolatedCurve(pts, equalize=False), pts
    R, t = FRAMES[fr]
    if kind == "analytic":
        return cb.AnalyticCurve(lambda s: R @ np.array([math.cos(s), math.sin(s), 0.3 * s]) + t, (0, 4.0)), None
    if kind == "analytic_neg":
        # bounds around parameter 0 (0 is a valid parameter inside the range, and a falsy value)
        return cb.AnalyticCurve(lambda s: R @ np.array([math.cos(s), math.sin(s), 0.3 * s]) + t, (-1.5, 2.5)), None
    if kind.startswith("line"):
        # (the optional bounds extend the line beyond its two defining points, or clip it between them)
        bounds = {"line": (0, 1), "line_ext": (-1.0, 2.5), "line_narrow": (0.2, 0.8)}[kind]
        return cb.LineCurve(frame_apply(FRAMES[fr], [[0.1, 0.2, 0.3]])[0], frame_apply(FRAMES[fr], [[1.5, -0.4, 0.9]])[0], bounds), None
    if kind == "circle":
        o = frame_apply(FRAMES[fr], [[0.5, 0.5, 0.2]])[0]
        rim = frame_apply(FRAMES[fr], [[1.7, 0.5, 0.2]])[0]
        return cb.CircleCurve(o, rim, R @ np.array([0, 0, 2.0]), (0, 5.0)), None
    if kind == "circle_neg":
        o = frame_apply(FRAMES[fr], [[0.5, 0.5, 0.2]])[0]
        rim = frame_apply(FRAMES[fr], [[1.7, 0.5, 0.2]])[0]
        return cb.CircleCurve(o, rim, R @ np.array([0, 0, 2.0]), (-1.0, 1.0)), None
    raise AssertionError(kind)


def run_case(case):
    import classy_blocks as cb

    violations = []
    execs = 0
    kind = case["kind"]
    curve, pts = make_curve(case)
    lo, hi = curve.bounds
    discrete = kind == "discrete"
    analytic = kind in ("analytic", "analytic_neg", "circle", "circle_neg") or kind.startswith("line")
    rel = 1e-3 if analytic else 1e-9
    if discrete:
        grid = list(range(int(lo), int(hi) + 1))
    else:
        grid = [lo + (hi - lo) * i / 10 for i in range(11)]
        if lo < 0 < hi:
            grid = sorted(set(grid) | {0.0})  # parameter 0 inside the range: a valid parameter that is falsy
        if kind.startswith("linear") or kind.startswith("spline"):
            # the parameters of the defining points themselves (break points of the length polyline)
            grid = sorted(set(grid) | {float(t) for t in curve.function.params})
    L = float(curve.length)
    ptol = 1e-9 * (1 + L)

    def bad(clause, detail, **kw):
        violations.append({"clause": clause, "coords": dict(case, **kw), "detail": detail})

    # 1. discretize end points
    for a in grid:
        for b in grid:
            if a == b:
                continue
            execs += 1
            try:
                d = np.array(curve.discretize(a, b))
                pa, pb = np.array(curve.get_point(a)), np.array(curve.get_point(b))
            except Exception as err:
                bad("discretize-raised", f"{type(err).__name__}: {err}", a=a, b=b)
                continue
            if len(d) < 2:
                bad("discretize-end-points", f"discretize({a},{b}) returned {len(d)} point(s)", a=a, b=b)
                continue
            if np.linalg.norm(d[0] - pa) > ptol or np.linalg.norm(d[-1] - pb) > ptol:
                bad("discretize-end-points", f"discretize({a},{b}) runs {d[0].round(6).tolist()} .. {d[-1].round(6).tolist()}, points at the parameters {pa.round(6).tolist()} .. {pb.round(6).tolist()}", a=a, b=b)
    # 2. interpolation through the defining points
    if kind.startswith("linear") or kind.startswith("spline"):
        params = curve.function.params
        for i, t in enumerate(params):
            execs += 1
            p = np.array(curve.get_point(min(max(float(t), lo), hi)))
            if np.linalg.norm(p - pts[i]) > 1e-9 * (1 + L):
                bad("not-through-defining-point", f"point {i}: curve({t}) = {p.tolist()}, given {pts[i].tolist()}", index=i)
    # 3. lengths
    for ia, a in enumerate(grid):
        for b in grid[ia + 1 :]:
            execs += 1
            try:
                lab = float(curve.get_length(a, b))
                lba = float(curve.get_length(b, a))
            except Exception as err:
                bad("length-raised", f"{type(err).__name__}: {err}", a=a, b=b)
                continue
            if not math.isclose(lab, lba, rel_tol=rel, abs_tol=1e-12):
                bad("length-not-symmetric", f"get_length({a},{b}) = {lab}, get_length({b},{a}) = {lba}", a=a, b=b)
            if kind.startswith("linear") or discrete:
                ref = ref_polyline_length(curve, pts, a, b, discrete)
                if not math.isclose(lab, ref, rel_tol=1e-9, abs_tol=1e-12):
                    bad("length-not-polyline", f"get_length({a},{b}) = {lab}, polyline between these parameters {ref}", a=a, b=b)
            for c in grid:
                if not (a < c < b):
                    continue
                if kind.startswith("spline") and not any(abs(c - float(t)) < 1e-12 for t in curve.function.params):
                    # the length of a spline-interpolated curve is defined as the polyline through its
                    # defining points: exactly additive only when split at one of them
                    continue
                execs += 1
                lac, lcb = float(curve.get_length(a, c)), float(curve.get_length(c, b))
                if not math.isclose(lab, lac + lcb, rel_tol=rel, abs_tol=1e-12):
                    bad("length-not-additive", f"get_length({a},{b}) = {lab} but get_length({a},{c}) + get_length({c},{b}) = {lac + lcb}", a=a, b=b, c=c)
    # 4. closest parameter
    dense_t = grid if discrete else [lo + (hi - lo) * i / 2000 for i in range(2001)]
    dense = np.array([curve.get_point(t) for t in dense_t])
    qs = [0.13, 0.37, 0.52, 0.81] if not discrete else [0, 1, len(grid) - 1]
    for qi, q in enumerate(qs):
        t0 = grid[q] if discrete else lo + (hi - lo) * q
        base = np.array(curve.get_point(t0))
        for mag in (0.0, 0.01, 0.1):
            off = jitter_vec(qi + 5) * mag * L * 0.2
            query = base + off
            execs += 1
            try:
                t = curve.get_closest_param(query)
                p = np.array(curve.get_point(t))
            except Exception as err:
                bad("closest-param-raised", f"{type(err).__name__}: {err}", query=qi, offset=mag)
                continue
            dd_all = np.linalg.norm(dense - query, axis=1)
            dmin = float(np.min(dd_all))
            # validity predicate (decided from the sampling alone, before looking at the answer): a query that has
            # two separate, nearly equidistant closest points lies next to the medial axis and is not in the alphabet
            if not discrete and mag > 0:
                jbest = int(np.argmin(dd_all))
                locmin = [j for j in range(1, len(dd_all) - 1) if dd_all[j] <= dd_all[j - 1] and dd_all[j] <= dd_all[j + 1] and abs(j - jbest) > 2]
                if any(dd_all[j] < 1.1 * dmin + 1e-9 for j in locmin) or dd_all[0] < 1.1 * dmin and jbest > 40 or dd_all[-1] < 1.1 * dmin and jbest < len(dd_all) - 41:
                    continue
            d = float(np.linalg.norm(p - query))
            if d > dmin + 1e-6 * (1 + L):
                bad("closest-param-not-closest", f"returned parameter {t}: distance {d:.6g}; a sampled point of the curve is at distance {dmin:.6g}", query=qi, offset=mag)
    # 5. OnCurve edge written to a file
    if not discrete and kind != "line":
        t_zero = (0.0 - lo) / (hi - lo)
        for ta, tb in ((0.1, 0.6), (0.75, 0.2)) + (((t_zero, 0.9), (0.05, t_zero)) if lo < 0 < hi else ()):
            a, b = lo + (hi - lo) * ta, lo + (hi - lo) * tb
            if ta == t_zero:
                a = 0.0
            if tb == t_zero:
                b = 0.0
            pa, pb = np.array(curve.get_point(a)), np.array(curve.get_point(b))
            execs += 1
            try:
                n = np.cross(pb - pa, jitter_vec(3))
                n = n / np.linalg.norm(n) * np.linalg.norm(pb - pa)
                face = cb.Face([pa, pb, pb + n, pa + n], [cb.OnCurve(curve, n_points=6, representation="polyLine"), None, None, None])
                up = np.cross(pb - pa, n)
                up = up / np.linalg.norm(up) * 0.5 * float(np.linalg.norm(pb - pa))
                op = cb.Loft(face, cb.Face([pa + up, pb + up, pb + n + up, pa + n + up]))
                for ax in range(3):
                    op.chop(ax, count=2)
                mesh = cb.Mesh()
                mesh.add(op)
                path = os.path.join(runner.scratch_dir(), f"c16_{os.getpid()}")
                mesh.write(path)
                d = foamdict.parse(open(path).read())
            except Exception as err:
                bad("oncurve-edge-raised", f"{type(err).__name__}: {err}", a=ta, b=tb)
                continue
            es = [e for e in d["edges"] if e["kind"] == "polyLine"]
            if len(es) != 1:
                bad("oncurve-edge-missing", f"{[(e['kind'], e['v']) for e in d['edges']]}", a=ta, b=tb)
                continue
            e = es[0]
            v1 = np.array(d["vertices"][e["v"][0]]["pos"])
            start_t, end_t = (a, b) if np.linalg.norm(v1 - pa) < np.linalg.norm(v1 - pb) else (b, a)
            prev = start_t
            okm = True
            for p in e["points"]:
                dd = np.linalg.norm(dense - np.array(p), axis=1)
                j = int(np.argmin(dd))
                if dd[j] > 2e-3 * (1 + L):
                    bad("oncurve-point-off-curve", f"written point {p} is {dd[j]:.4g} away from the curve", a=ta, b=tb)
                    break
                t = dense_t[j]
                if (end_t - start_t) * (t - prev) < -1e-9 or not (min(a, b) - 1e-3 * (hi - lo) <= t <= max(a, b) + 1e-3 * (hi - lo)):
                    okm = False
                prev = t
            if not okm:
                bad("oncurve-points-not-between-vertices", f"parameters of the written points are not monotone between {start_t} and {end_t}", a=ta, b=tb)
            wire = mesh.blocks[0].wires[0][1]
            want = float(curve.get_length(min(a, b), max(a, b)))
            if not math.isclose(wire.edge.length, want, rel_tol=1e-3):
                bad("oncurve-edge-length", f"Edge.length {wire.edge.length}, curve length between the vertex parameters {want}", a=ta, b=tb)
    return {"violations": violations, "outcome": f"{kind}", "execs": execs, "nontrivial_n": execs, "states": 1, "transitions": execs}


def ref_polyline_length(curve, pts, a, b, discrete):
    """exact sub-polyline between parameters a < b of a piecewise-linear curve through pts"""
    if discrete:
        P = pts[int(a) : int(b) + 1]
        return float(np.sum(np.linalg.norm(P[1:] - P[:-1], axis=1)))
    params = np.array(curve.function.params, dtype=float)

    def point(t):
        j = int(np.searchsorted(params, t, side="right") - 1)
        j = min(max(j, 0), len(params) - 2)
        w = (t - params[j]) / (params[j + 1] - params[j])
        return pts[j] * (1 - w) + pts[j + 1] * w

    inner = [pts[i] for i, t in enumerate(params) if a < t < b]
    P = np.array([point(a)] + inner + [point(b)])
    return float(np.sum(np.linalg.norm(P[1:] - P[:-1], axis=1)))
