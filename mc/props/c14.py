"""C14 - the block quality measure depends only on the cell's shape."""

from __future__ import annotations

import math

import numpy as np

from mc import blockmesh_ref as bm
from mc.domains import FRAMES, HEXSYM24, frame_apply, jitter_vec, renumber

ID = "C14"
LEVEL = "exploration"
DESIGN_REF = "DESIGN.md 5 C14"
RULE = (
    "case = (hexahedron or quadrilateral from a fixed table, with/without a face neighbour); inside, the quality of the "
    "real HexCell/QuadCell is evaluated for all 24 (4) rotational renumberings x 8 rigid frames x 4 scale factors and "
    "compared with the reference evaluation of the same shape; stretch family: unit cube stretched by lambda in "
    "{1,1.5,2,3,5,10} along each of the 3 directions (monotone, direction-independent). non-trivial = a distinct "
    "(shape, numbering, frame, scale) evaluation"
)
ASSUMPTIONS = [
    "scale invariance compared to rel 1e-3 for minimum edge >= 0.1 (the library adds VSMALL = 1e-6 to lengths)",
    "renumbering / rigid motion compared to rel 1e-6",
]

SCALES = [0.1, 1.0, 10.0, 100.0]
LAMBDAS = [1.0, 1.5, 2.0, 3.0, 5.0, 10.0]


def base_hexes():
    cube = np.array(bm.CORNER_XYZ, dtype=float)
    shapes = {"cube": cube, "box115": cube * [1, 1, 5], "box151": cube * [1, 5, 1], "box511": cube * [5, 1, 1], "box123": cube * [1, 2, 3]}
    sh = cube.copy()
    sh[:, 0] += 0.4 * sh[:, 1] + 0.2 * sh[:, 2]
    shapes["sheared"] = sh
    tp = cube.copy()
    tp[4:, :2] = 0.5 + (tp[4:, :2] - 0.5) * 0.6
    shapes["tapered"] = tp
    for k in range(3):
        shapes[f"jitter{k}"] = cube * [1, 1.5, 1.2] + np.array([0.12 * jitter_vec(8 * k + i) for i in range(8)])
    return shapes


def base_quads():
    return {
        "square": np.array([(0, 0, 0), (1, 0, 0), (1, 1, 0), (0, 1, 0)], dtype=float),
        "rect": np.array([(0, 0, 0), (3, 0, 0), (3, 1, 0), (0, 1, 0)], dtype=float),
        "general": np.array([(0, 0, 0), (1.3, 0.1, 0), (1.1, 0.9, 0), (-0.1, 1.2, 0)], dtype=float),
    }


def cases(tier, seed):
    out = []
    frames = list(range(len(FRAMES))) if tier == "thorough" else sorted({0, 4, 1 + seed % 7})
    for name in base_hexes():
        for nb in (False, True):
            out.append({"kind": "hex", "shape": name, "neighbour": nb, "frames": frames, "tier": tier})
    for name in base_quads():
        for nb in (False, True):
            out.append({"kind": "quad", "shape": name, "neighbour": nb, "frames": frames})
    out.append({"kind": "stretch", "frames": frames})
    return out


def hex_quality(points8, neighbour):
    from classy_blocks.optimize.grid import HexGrid

    pts = np.array(points8, dtype=float)
    addressing = [list(range(8))]
    if neighbour:
        # a second cell on top (shares corners 4..7), extruded by the mean vertical edge
        up = np.mean(pts[4:] - pts[:4], axis=0)
        pts = np.vstack([pts, pts[4:] + up])
        addressing.append([4, 5, 6, 7, 8, 9, 10, 11])
    grid = HexGrid(pts, addressing)
    return float(grid.cells[0].quality)


def hex_quality_numbered(points8, perm, neighbour, nperm=None, subject_first=True):
    """quality of the same geometric cell (and neighbour) with the subject cell's corners renumbered by perm, the
    neighbour's by nperm, and either of the two listed first"""
    from classy_blocks.optimize.grid import HexGrid

    pts = np.array(points8, dtype=float)
    all_pts = pts
    addressing = [[perm[j] for j in range(8)]]
    if neighbour:
        up = np.mean(pts[4:] - pts[:4], axis=0)
        all_pts = np.vstack([pts, pts[4:] + up])
        base = [4, 5, 6, 7, 8, 9, 10, 11]
        addressing.append(base if nperm is None else [base[nperm[j]] for j in range(8)])
        if not subject_first:
            addressing.reverse()
    grid = HexGrid(all_pts, addressing)
    try:
        return float(grid.cells[0 if subject_first or not neighbour else 1].quality)
    except ValueError:
        return None


def quad_quality(points4, shift, neighbour):
    from classy_blocks.optimize.grid import QuadGrid

    pts = np.array(points4, dtype=float)
    addressing = [[(j + shift) % 4 for j in range(4)]]
    if neighbour:
        right = pts[1] - pts[0]
        pts = np.vstack([pts, pts[1] + right, pts[2] + right])
        addressing.append([1, 4, 5, 2])
    grid = QuadGrid(pts, addressing)
    try:
        return float(grid.cells[0].quality)
    except ValueError:
        return None


def run_case(case):
    violations = []
    execs = 0

    def cmp(q, ref, rel, clause, coords):
        coords = dict(coords, kind=case["kind"])
        if q is None:
            violations.append({"clause": "quality-raised", "coords": coords, "detail": "quality of a valid, non-degenerate cell raised (Degenerate Cell)"})
            return
        # scaling: lengths carry an additive guard VSMALL = 1e-6 -> absolute floor 1e-3 on top of rel 1e-3
        abs_tol = 1e-3 if clause == "scaling-changes-quality" else 1e-6
        if not math.isclose(q, ref, rel_tol=rel, abs_tol=abs_tol):
            violations.append({"clause": clause, "coords": coords, "detail": f"quality {q:.9g}, reference evaluation of the same shape {ref:.9g}"})

    if case["kind"] == "hex":
        pts = base_hexes()[case["shape"]]
        ref = hex_quality(pts, case["neighbour"])
        for k, perm in enumerate(HEXSYM24):
            q = hex_quality_numbered(pts, perm, case["neighbour"])
            execs += 1
            cmp(q, ref, 1e-6, "renumbering-changes-quality", {"shape": case["shape"], "neighbour": case["neighbour"], "numbering": k})
        if case["neighbour"]:
            # the neighbour renumbered as well, and either block listed first
            nperms = range(24) if case.get("tier") == "thorough" else (0, 1, 5, 9, 14, 17, 22)
            for k in (0, 5, 17) if case.get("tier") != "thorough" else range(24):
                for nk in nperms:
                    for first in (True, False):
                        q = hex_quality_numbered(pts, HEXSYM24[k], True, HEXSYM24[nk], first)
                        execs += 1
                        cmp(q, ref, 1e-6, "renumbering-changes-quality", {"shape": case["shape"], "neighbour": True, "numbering": k, "neighbour_numbering": nk, "subject_first": first})
        for fr in case["frames"]:
            for sc in SCALES:
                p2 = frame_apply(FRAMES[fr], pts * sc)
                for k in (0, 5, 17):
                    q = hex_quality_numbered(p2, HEXSYM24[k], case["neighbour"])
                    execs += 1
                    rel = 1e-6 if sc == 1.0 else 1e-3
                    cmp(q, ref, rel, "rigid-motion-changes-quality" if sc == 1.0 else "scaling-changes-quality", {"shape": case["shape"], "neighbour": case["neighbour"], "frame": fr, "scale": sc, "numbering": k})
        return {"violations": violations, "outcome": f"hex:{case['shape']}:{round(ref, 3)}", "execs": execs, "nontrivial_n": execs, "states": 1, "transitions": execs}
    if case["kind"] == "quad":
        pts = base_quads()[case["shape"]]
        ref = quad_quality(pts, 0, case["neighbour"])
        if ref is None:
            raise AssertionError("reference evaluation of a table quad raised")
        for sh in range(4):
            for fr in case["frames"]:
                for sc in SCALES:
                    p2 = frame_apply(FRAMES[fr], pts * sc)
                    q = quad_quality(p2, sh, case["neighbour"])
                    execs += 1
                    rel = 1e-6 if sc == 1.0 else 1e-3
                    clause = "renumbering-changes-quality" if (fr == 0 and sc == 1.0) else ("rigid-motion-changes-quality" if sc == 1.0 else "scaling-changes-quality")
                    cmp(q, ref, rel, clause, {"shape": case["shape"], "neighbour": case["neighbour"], "frame": fr, "scale": sc, "numbering": sh})
        return {"violations": violations, "outcome": f"quad:{case['shape']}:{round(ref, 3) if ref is not None else None}", "execs": execs, "nontrivial_n": execs, "states": 1, "transitions": execs}
    # stretch family
    cube = np.array(bm.CORNER_XYZ, dtype=float)
    table = {}
    for d in range(3):
        for lam in LAMBDAS:
            s = [1.0, 1.0, 1.0]
            s[d] = lam
            for fr in case["frames"][:2]:
                table[(d, lam, fr)] = hex_quality(frame_apply(FRAMES[fr], cube * s), False)
                execs += 1
    for fr in case["frames"][:2]:
        for lam in LAMBDAS:
            qs = [table[(d, lam, fr)] for d in range(3)]
            if max(qs) - min(qs) > 1e-6 * max(1.0, max(qs)):
                violations.append({"clause": "stretch-direction-dependent", "coords": {"lambda": lam, "frame": fr}, "detail": f"quality for stretching along x, y, z: {[round(q, 6) for q in qs]}"})
        for d in range(3):
            prev = None
            for lam in LAMBDAS:
                q = table[(d, lam, fr)]
                if prev is not None and q < prev - 1e-9:
                    violations.append({"clause": "stretch-lowers-quality-value", "coords": {"direction": d, "lambda": lam, "frame": fr}, "detail": f"{prev} -> {q}"})
                prev = q
    return {"violations": violations, "outcome": "stretch", "execs": execs, "nontrivial_n": execs, "states": 1, "transitions": execs}
