"""C06 - the written blockMeshDict is a faithful, well-formed rendering of the model."""

from __future__ import annotations

import itertools
import os

import numpy as np

from mc import blockmesh_ref as bm
from mc import foamdict, runner

ID = "C06"
LEVEL = "model_checking"
DESIGN_REF = "DESIGN.md 5 C06"
RULE = (
    "programs = (base: two adjacent boxes | box + loft with curved edges | cylinder | hemisphere + box) followed by every "
    "set of <= k decoration statements from a 60-statement alphabet (set_patch one/two sides, set_cell_zone, project_side "
    "with flags, project_edge, project_corner, add_geometry, merge_patches, set_default_patch, modify_patch with/without "
    "settings, mesh.settings, delete) in both orders where statements touch the same target, then write(path, debug_path); "
    "executed on the real API and on a plain-Python declaration model; the file is read back by the independent reader. "
    "non-trivial = a program with at least one decoration"
    " Bases boxes_x/y/z and boxes_rx/ry/rz with every set of <= 3 of the 12 side projections; base hemi_copy (a moved copy of a sphere shape alone)."
)
ASSUMPTIONS = [
    "string payloads (settings, geometry properties) are opaque tokens",
    "contradictory declarations (one face projected to two different geometries) are not in the alphabet",
]
SIDES = ["bottom", "top", "left", "right", "front", "back"]
GEOM = {"geo": ["type triSurfaceMesh", "name geo", 'file "geo.stl"']}
# a second declaration under the same name: the later one is the user's last word
GEOM2 = {"geo": ["type searchableSphere", "centre (0 0 0)", "radius 2"]}


def decorations():
    D = []
    for op in (0, 1):
        for side in SIDES:
            D.append(("set_patch", op, side, "p" if (SIDES.index(side) + op) % 2 == 0 else "q"))
        D.append(("set_patch", op, "right", "q"))
        D.append(("set_patch", op, "top", "p"))
        D.append(("set_patch2", op, ("left", "top"), "p"))
        D.append(("set_patch2", op, ("front", "right"), "q"))
        D.append(("zone", op, f"z{op}"))
        for side in ("top", "right", "front"):
            D.append(("project_side", op, side, False, False))
        D.append(("project_side", op, "left", True, False))
        D.append(("project_side", op, "back", False, True))
        D.append(("project_side", op, "bottom", True, True))
        for c1, c2 in ((0, 1), (3, 0), (2, 6), (7, 4)):
            D.append(("project_edge", op, c1, c2))
        for c in (0, 6):
            D.append(("project_corner", op, c))
        D.append(("delete", op))  # (only used with the box bases, where every operation is chopped on its own)
    D.append(("geometry",))
    D.append(("geometry2",))
    D.append(("merge", "p", "q"))
    D.append(("merge", "q", "p"))
    D.append(("default", "walls", "wall"))
    D.append(("modify", "p", "wall", None))
    D.append(("modify", "q", "cyclic", ["neighbourPatch p", "transform none"]))
    D.append(("modify", "unused", "empty", None))
    D.append(("modify", "q", "wall", []))  # re-declaration with explicitly empty settings
    D.append(("modify", "p", "patch", ["inGroups (a)"]))
    D.append(("setting", "scale", 0.001))
    D.append(("setting", "mergeType", "points"))
    # (appended later; the indexes of the statements above are part of recorded coordinates)
    for op in (0, 1):
        for side in ("left", "back", "bottom"):
            D.append(("project_side", op, side, False, False))
    return D


def plain_side_projections():
    """indexes of the 12 statements project_side(op, side, 'geo') without edges / points"""
    return [i for i, d in enumerate(decorations()) if d[0] == "project_side" and not d[3] and not d[4]]


BASES = ["boxes", "box_loft", "cylinder", "hemi_box", "slit", "hemi_copy"]


def target(d):
    """statements with the same target do not commute: both orders are enumerated"""
    if d[0] in ("set_patch", "project_side"):
        return (d[1], d[2])
    if d[0] == "set_patch2":
        return (d[1], "multi")
    if d[0] in ("project_edge",):
        return (d[1], frozenset(d[2:4]))
    if d[0] == "modify":
        return ("modify", d[1])
    return None


def touches(a, b):
    if a[0] in ("set_patch", "set_patch2") and b[0] in ("set_patch", "set_patch2") and a[1] == b[1]:
        sa = {a[2]} if a[0] == "set_patch" else set(a[2])
        sb = {b[2]} if b[0] == "set_patch" else set(b[2])
        return bool(sa & sb)
    if a[0] == "modify" and b[0] == "modify" and a[1] == b[1]:
        return True
    if a[0] == "merge" and b[0] == "merge":
        return True
    if a[0].startswith("geometry") and b[0].startswith("geometry"):
        return True
    if a[0] == "setting" and b[0] == "setting" and a[1] == b[1]:
        return True
    return False


def cases(tier, seed):
    D = decorations()
    out = []
    idx = list(range(len(D)))
    def ok(base, prog):
        dels = [D[i] for i in prog if D[i][0] == "delete"]
        if base not in ("boxes", "box_loft", "slit"):
            # a merged (slave) patch on single operations of a shape duplicates their vertices and cuts the
            # shape's chops off from them: chopping would be the script's job, which this alphabet does not do
            kinds = {D[i][0] for i in prog}
            if "merge" in kinds and kinds & {"set_patch", "set_patch2"}:
                return False
        return len({d[1] for d in dels}) < 2

    for base in BASES:
        out.append({"base": base, "prog": []})
        for i in idx:
            out.append({"base": base, "prog": [i]})
        pair_bases = BASES if tier == "thorough" else ["boxes", "box_loft"] if base in ("boxes", "box_loft") else []
        if base in pair_bases:
            for i, j in itertools.combinations(idx, 2):
                out.append({"base": base, "prog": [i, j]})
                if touches(D[i], D[j]):
                    out.append({"base": base, "prog": [j, i]})
        elif tier == "quick":
            # shapes: pairs from a thinned alphabet
            thin = idx[::4]
            for i, j in itertools.combinations(thin, 2):
                out.append({"base": base, "prog": [i, j]})
    if tier == "quick":
        thin = idx[(seed % 3) :: 5]
        for i, j, k in itertools.combinations(thin, 3):
            out.append({"base": "boxes", "prog": [i, j, k]})
    else:
        thin = idx[::2]
        for i, j, k in itertools.combinations(thin, 3):
            out.append({"base": "boxes", "prog": [i, j, k]})
            out.append({"base": "box_loft", "prog": [k, j, i]})
    out = [c for c in out if ok(c["base"], c["prog"])]
    # written, then the first operation deleted (the mesh is assembled again and its vertices renumbered), written again:
    # the second file is that of the model without the operation
    for i in idx:
        if D[i][0] != "delete":
            out.append({"base": "boxes", "prog": [i], "late_delete": 0})
    for i, j in itertools.combinations(idx, 2):
        kinds = {D[i][0], D[j][0]}
        if "modify" in kinds and kinds & {"set_patch", "set_patch2"}:
            out.append({"base": "boxes", "prog": [i, j], "late_delete": 0})
    # the built-in geometry of a sphere shape follows the shape: write, move the shape, clear(), write again
    # projected sides of two touching boxes: every set of <= 3 of the 12 (operation, side) projections, for a contact
    # across x, y and z and both orders of adding the boxes (the shared quad may be projected from either side or both)
    PS = plain_side_projections()
    for base in ("boxes_x", "boxes_y", "boxes_z", "boxes_rx", "boxes_ry", "boxes_rz"):
        for r in (1, 2, 3):
            for prog in itertools.combinations(PS, r):
                if tier == "quick" and r == 3 and (sum(prog) + seed) % 2:
                    continue
                out.append({"base": base, "prog": list(prog)})
    for k in range(len(MOVES)):
        for redo in ("clear", "fresh_mesh"):
            out.append({"base": "hemi_box", "prog": [], "moved": k, "redo": redo})
    return out


# ----------------------------------------------------------------------------
def build_base(base):
    """-> (entities in depot order, list of all operations in depot order)"""
    import classy_blocks as cb

    ents = []
    if base.startswith("boxes_"):
        # two boxes that share a quad across x / y / z, the second one added first in the r* variants
        axis = "xyz".index(base[-1])
        for k in (0, 1):
            lo, hi = [0.0, 0.0, 0.0], [1.0, 1.0, 1.0]
            lo[axis] += k
            hi[axis] += k
            b = cb.Box(lo, hi)
            for a, c in enumerate((2, 3, 4)):
                b.chop(a, count=c if axis == 0 or a == axis else 3)
            ents.append(b)
        if base[-2] == "r":
            ents.reverse()
    elif base in ("boxes", "slit"):
        # "slit": two boxes that do not touch, 0.2 mm apart (distinct model points far closer than the cell size)
        for x in (0, 1):
            gap = 2e-4 * x if base == "slit" else 0.0
            b = cb.Box([x + gap, 0, 0], [x + 1 + gap, 1, 1])
            for a, c in enumerate((2, 3, 4)):
                b.chop(a, count=c)
            ents.append(b)
    elif base == "box_loft":
        b = cb.Box([0, 0, 0], [1, 1, 1])
        for a, c in enumerate((2, 3)):
            b.chop(a, count=c)
        b.chop(2, length_ratio=0.4, count=3, total_expansion=2.0)
        b.chop(2, length_ratio=0.6, count=2, total_expansion=0.5)
        f1 = cb.Face([[1, 0, 0], [2.2, 0.1, 0], [2.1, 1.1, 0.1], [1, 1, 0]], [cb.Arc([1.6, -0.2, 0]), None, cb.Spline([[1.8, 1.2, 0.1], [1.4, 1.15, 0.05]]), None])
        f2 = cb.Face([[1, 0, 1], [2.1, 0.0, 1.1], [2.0, 1.0, 1.2], [1, 1, 1]])
        lo = cb.Loft(f1, f2)
        lo.add_side_edge(1, cb.PolyLine([[2.3, 0.05, 0.4], [2.25, 0.02, 0.8]]))
        # axis 0 of the loft is its own: size-preserving chops on four edges of different lengths give an
        # edgeGrading entry whose 12 slots all differ; axis 2 (shared with the box) is multigraded
        lo.chop(0, start_size=0.1, c2c_expansion=1.15, preserve="start_size")
        lo.chop(1, count=3)
        lo.chop(2, length_ratio=0.4, count=3, total_expansion=2.0)
        lo.chop(2, length_ratio=0.6, count=2, total_expansion=0.5)
        ents += [b, lo]
    elif base == "cylinder":
        c = cb.Cylinder([0, 0, 0], [0, 0, 1.5], [0.7, 0, 0])
        # every operation chopped on its own (same count everywhere) so that any of them can be deleted
        for op in c.operations:
            for a in range(3):
                op.chop(a, count=2)
        ents.append(c)
    else:
        h = cb.Hemisphere([3, 0, 0], [4, 0, 0], [0, 0, 1])
        if base == "hemi_copy":
            # only a moved COPY of the sphere shape is in the mesh: everything it projects to must be its own geometry
            h = h.copy().translate([0.5, 0.3, -0.2])
        for op in h.operations:
            for a in range(3):
                op.chop(a, count=2)
        b = cb.Box([0, 0, 0], [1, 1, 1])
        for a, c in enumerate((2, 3, 4)):
            b.chop(a, count=c)
        ents += [h, b]
    ops = []
    for e in ents:
        ops += [e] if not hasattr(e, "operations") else list(e.operations)
    return ents, ops


def _norm_sections(secs):
    """blockMesh normalises the length and cell fractions of a multi-grading; a single section is its expansion only"""
    if len(secs) == 1:
        return [(1.0, 1.0, secs[0][2])]
    ls, ns = sum(x[0] for x in secs), sum(x[1] for x in secs)
    return [(x[0] / ls, x[1] / ns, x[2]) for x in secs]


class Decl:
    """plain-Python declaration model"""

    def __init__(self, n_ops):
        self.patch = [dict() for _ in range(n_ops)]
        self.zone = [""] * n_ops
        self.side_proj = [dict() for _ in range(n_ops)]
        self.edge_proj = [dict() for _ in range(n_ops)]
        self.corner_proj = [dict() for _ in range(n_ops)]
        self.deleted = set()
        self.geometry = {}
        self.merges = []
        self.default = None
        self.modified = {}
        self.settings = {}


def run_program(case):
    import classy_blocks as cb

    D = decorations()
    ents, ops = build_base(case["base"])
    mesh = cb.Mesh()
    for e in ents:
        mesh.add(e)
    decl = Decl(len(ops))
    # pre-existing declarations of the base (hemisphere projections etc.) are read from the operations themselves
    for st in (D[i] for i in case["prog"]):
        kind = st[0]
        if kind == "set_patch":
            _, o, side, name = st
            ops[o].set_patch(side, name)
            decl.patch[o][side] = name
        elif kind == "set_patch2":
            _, o, sides, name = st
            ops[o].set_patch(list(sides), name)
            for s in sides:
                decl.patch[o][s] = name
        elif kind == "zone":
            ops[st[1]].set_cell_zone(st[2])
            decl.zone[st[1]] = st[2]
        elif kind == "project_side":
            _, o, side, e, p = st
            ops[o].project_side(side, "geo", edges=e, points=p)
            decl.side_proj[o][side] = "geo"
            cs = set(bm.FACES[side])
            if e:
                for ed in bm.EDGES:
                    if set(ed) <= cs:
                        decl.edge_proj[o].setdefault(frozenset(ed), set()).add("geo")
            if p:
                for c in cs:
                    decl.corner_proj[o].setdefault(c, []).append("geo")
        elif kind == "project_edge":
            _, o, c1, c2 = st
            ops[o].project_edge(c1, c2, "geo")
            decl.edge_proj[o].setdefault(frozenset((c1, c2)), set()).add("geo")
        elif kind == "project_corner":
            ops[st[1]].project_corner(st[2], "geo")
            decl.corner_proj[st[1]].setdefault(st[2], []).append("geo")
        elif kind == "delete":
            mesh.delete(ops[st[1]])
            decl.deleted.add(st[1])
        elif kind == "geometry":
            mesh.add_geometry(dict(GEOM))
            decl.geometry.update(GEOM)
        elif kind == "geometry2":
            mesh.add_geometry(dict(GEOM2))
            decl.geometry.update(GEOM2)
        elif kind == "merge":
            mesh.merge_patches(st[1], st[2])
            decl.merges.append((st[1], st[2]))
        elif kind == "default":
            mesh.set_default_patch(st[1], st[2])
            decl.default = {"name": st[1], "type": st[2]}
        elif kind == "modify":
            mesh.modify_patch(st[1], st[2], st[3])
            kindv, sett = decl.modified.get(st[1], ("patch", []))
            decl.modified[st[1]] = (st[2], list(st[3]) if st[3] is not None else sett)
        elif kind == "setting":
            mesh.settings[st[1]] = st[2]
            decl.settings[st[1]] = str(st[2])
    path = os.path.join(runner.scratch_dir(), f"c06_{os.getpid()}")
    mesh.write(path, path + ".vtk")
    if case.get("late_delete") is not None:
        mesh.delete(ops[case["late_delete"]])
        decl.deleted.add(case["late_delete"])
        mesh.write(path, path + ".vtk")
    return mesh, ops, decl, open(path).read(), open(path + ".vtk").read()


MOVES = [("translate", [0.5, 0.2, -0.3]), ("rotate", 0.7, [0, 0, 1], [0, 0, 0]), ("scale", 1.5, [0, 0, 0]), ("translate+scale", [0.5, 0.2, -0.3], 0.5)]


def _move(h, k):
    mv = MOVES[k]
    if mv[0] == "translate":
        h.translate(mv[1])
    elif mv[0] == "rotate":
        h.rotate(mv[1], mv[2], mv[3])
    elif mv[0] == "scale":
        h.scale(mv[1], mv[2])
    else:
        h.translate(mv[1])
        h.scale(mv[2], [0, 0, 0])


def _auto_geometry(d):
    """the built-in (sphere) geometry entries as sorted lists of numbers, names dropped"""
    import re

    out = []
    for name, props in d["geometry"].items():
        if name.startswith("sphere_"):
            out.append([float(x) for p in props for x in re.findall(r"-?\d+\.?\d*(?:[eE][-+]?\d+)?", p.split(" ", 1)[1] if " " in p else "")])
    return sorted(out)


def run_moved(case):
    import classy_blocks as cb

    violations = []
    coords = dict(case)
    coords["move"] = str(MOVES[case["moved"]])
    path = os.path.join(runner.scratch_dir(), f"c06_{os.getpid()}")
    try:
        ents, _ = build_base("hemi_box")
        mesh = cb.Mesh()
        for e in ents:
            mesh.add(e)
        mesh.write(path)
        _move(ents[0], case["moved"])
        if case["redo"] == "clear":
            mesh.clear()
        else:
            # the same (moved) shape object given to a new mesh
            mesh = cb.Mesh()
            for e in ents:
                mesh.add(e)
        mesh.write(path)
        d2 = foamdict.parse(open(path).read())
        ents3, _ = build_base("hemi_box")
        _move(ents3[0], case["moved"])
        mesh3 = cb.Mesh()
        for e in ents3:
            mesh3.add(e)
        mesh3.write(path)
        d3 = foamdict.parse(open(path).read())
    except Exception as err:
        violations.append({"clause": "program-raised", "coords": coords, "detail": f"{type(err).__name__}: {str(err)[:200]}"})
        return {"violations": violations, "outcome": "raised", "nontrivial": True}
    g2, g3 = _auto_geometry(d2), _auto_geometry(d3)
    same = len(g2) == len(g3) and all(len(a) == len(b) and all(abs(x - y) <= 1e-9 * (1 + abs(y)) for x, y in zip(a, b)) for a, b in zip(g2, g3))
    if not same or not g3:
        violations.append({"clause": "built-in-geometry-not-moved-with-the-shape", "coords": coords, "detail": f"written after the shape was moved: {g2}; the same shape moved before its first write: {g3}"})
    v2 = [v["pos"] for v in d2["vertices"]]
    v3 = [v["pos"] for v in d3["vertices"]]
    if len(v2) != len(v3) or any(np.linalg.norm(np.array(a) - np.array(b)) > 1e-9 for a, b in zip(v2, v3)):
        violations.append({"clause": "vertices-not-moved-with-the-shape", "coords": coords, "detail": "vertex lists differ"})
    return {"violations": violations, "outcome": f"moved:{len(g3)}", "nontrivial": True, "execs": 3, "states": 3, "transitions": 3}


def run_case(case):
    if "moved" in case:
        return run_moved(case)
    violations = []
    coords = dict(case)
    D = decorations()
    coords["statements"] = [list(map(str, D[i])) for i in case["prog"]]

    def bad(clause, detail):
        violations.append({"clause": clause, "coords": coords, "detail": detail})

    try:
        mesh, ops, decl, text, vtk = run_program(case)
    except Exception as err:
        # deleting every operation of a single-entity model etc. is not in the alphabet; anything else is a failure
        bad("program-raised", f"{type(err).__name__}: {str(err)[:200]}")
        return {"violations": violations, "outcome": "raised", "nontrivial": bool(case["prog"])}
    try:
        d = foamdict.parse(text)
    except foamdict.FoamSyntaxError as err:
        bad("file-not-well-formed", str(err))
        return {"violations": violations, "outcome": "syntax", "nontrivial": True}
    V = [np.array(v["pos"]) for v in d["vertices"]]
    nV = len(V)
    if d.get("FoamFile", {}).get("object") != "blockMeshDict":
        bad("header", str(d.get("FoamFile")))
    if d["vertex_comments"] != list(range(nV)):
        bad("vertex-numbering", "comments are not 0..n-1 in list order")
    live = [i for i in range(len(ops)) if i not in decl.deleted]
    if len(d["blocks"]) != len(live):
        bad("hex-count", f"{len(d['blocks'])} hex entries for {len(live)} non-deleted operations")
        return {"violations": violations, "outcome": "hexcount", "nontrivial": True}
    vert_of = {}
    for pos, o in enumerate(live):
        blk = d["blocks"][pos]
        if any(not (0 <= i < nV) for i in blk["v"]):
            bad("index-out-of-range", f"hex {pos}: {blk['v']}")
            continue
        pts = np.array(ops[o].point_array)
        for c in range(8):
            if np.linalg.norm(V[blk["v"][c]] - pts[c]) > 1e-7 + 5e-9 * np.linalg.norm(pts[c]):
                bad("hex-corner-order", f"operation {o} corner {c} at {pts[c].round(6).tolist()} is written as vertex {blk['v'][c]} at {V[blk['v'][c]].round(6).tolist()}")
                break
            vert_of[(o, c)] = blk["v"][c]
        if blk["zone"] != decl.zone[o]:
            bad("cell-zone", f"operation {o}: zone {blk['zone']!r}, declared {decl.zone[o]!r}")
        if case["base"].startswith("boxes_"):
            pass
        elif case["base"] in ("boxes", "slit") or (case["base"] == "box_loft" and o == 0) or (case["base"] in ("hemi_box", "hemi_copy") and o == len(ops) - 1):
            if blk["counts"] != [2, 3, 4] and case["base"] != "box_loft":
                bad("hex-counts", f"operation {o}: {blk['counts']}, chopped (2 3 4)")
        # counts and gradings: the model holds one grading per edge of the block (between two of its corners, in
        # a direction); the hex entry lists them in blockMesh's slot order (mc.blockmesh_ref.EDGES)
        mblk = mesh.blocks[pos]
        items = blk["grading"] if blk["kind"] == "edgeGrading" else [blk["grading"][k // 4] for k in range(12)]
        for k, (c1, c2) in enumerate(bm.EDGES):
            wire = mblk.wires[c1][c2]
            g = wire.grading if list(wire.corners) == [c1, c2] else wire.grading.inverted
            if g.count != blk["counts"][k // 4]:
                bad("hex-counts", f"operation {o}: edge {c1}-{c2} holds {g.count} cells, the entry says {blk['counts'][k // 4]}")
                break
            want = _norm_sections([tuple(float(x) for x in sp) for sp in g.specification])
            got = _norm_sections(items[k])
            if len(want) != len(got) or any(abs(a - b) > 1e-9 * max(1.0, abs(b)) for w, q in zip(want, got) for a, b in zip(q, w)):
                bad("hex-gradings", f"operation {o}: edge {c1}-{c2} (slot {k}) is graded {want} in the model, written {got}")
                break
    block_faces = set()
    block_edges = set()
    for blk in d["blocks"]:
        for cs in bm.FACES.values():
            block_faces.add(frozenset(blk["v"][c] for c in cs))
        for a, b in bm.EDGES:
            block_edges.add(frozenset((blk["v"][a], blk["v"][b])))
    # boundary
    want_patches = {}
    for o in live:
        for side, name in decl.patch[o].items():
            want_patches.setdefault(name, set()).add(frozenset(vert_of.get((o, c), -1) for c in bm.FACES[side]))
    for name in decl.modified:
        want_patches.setdefault(name, set())
    got_patches = {}
    for p in d["boundary"]:
        if p["name"] in got_patches:
            bad("patch-listed-twice", p["name"])
        got_patches[p["name"]] = p
        for q in p["faces"]:
            if any(not (0 <= i < nV) for i in q):
                bad("index-out-of-range", f"patch {p['name']}: {q}")
            elif frozenset(q) not in block_faces:
                bad("patch-quad-not-a-block-side", f"patch {p['name']}: {q}")
    if set(got_patches) != set(want_patches):
        bad("boundary-patch-names", f"written {sorted(got_patches)}, declared {sorted(want_patches)}")
    for name, quads in want_patches.items():
        if name not in got_patches:
            continue
        p = got_patches[name]
        gq = [frozenset(q) for q in p["faces"]]
        if set(gq) != quads or len(gq) != len(set(gq)):
            bad("patch-faces", f"patch {name}: written {sorted(map(sorted, gq))}, declared {sorted(map(sorted, quads))}")
        kindv, sett = decl.modified.get(name, ("patch", []))
        if p["type"] != kindv or p["settings"] != sett:
            bad("patch-type-settings", f"patch {name}: type {p['type']} settings {p['settings']}, declared {kindv} {sett}")
    # default patch, merges, settings, geometry
    if (d["defaultPatch"] or None) != decl.default:
        bad("defaultPatch", f"{d['defaultPatch']} vs {decl.default}")
    if [tuple(x) for x in (d["mergePatchPairs"] or [])] != decl.merges:
        bad("mergePatchPairs", f"{d['mergePatchPairs']} vs {decl.merges}")
    want_settings = {"scale": "1"}
    want_settings.update(decl.settings)
    if d["settings"] != want_settings:
        bad("settings", f"{d['settings']} vs {want_settings}")
    auto = {k: v for k, v in d["geometry"].items() if k.startswith("sphere_")}
    user = {k: v for k, v in d["geometry"].items() if not k.startswith("sphere_")}
    if user != decl.geometry:
        bad("geometry", f"{user} vs {decl.geometry}")
    # projections
    used_labels = set()
    want_faces = {}
    for o in live:
        for side, lab in decl.side_proj[o].items():
            want_faces.setdefault(frozenset(vert_of.get((o, c), -1) for c in bm.FACES[side]), lab)
    got_user_faces = {}
    for f in d["faces"]:
        used_labels.add(f["label"])
        key = frozenset(f["v"])
        if key not in block_faces:
            bad("projected-quad-not-a-block-side", f"{f}")
        if not f["label"].startswith("sphere_"):
            if key in got_user_faces:
                bad("projected-face-listed-twice", f"{f}")
            got_user_faces[key] = f["label"]
    if got_user_faces != want_faces:
        bad("faces-section", f"written {[(sorted(k), v) for k, v in got_user_faces.items()]}, declared {[(sorted(k), v) for k, v in want_faces.items()]}")
    want_edges = {}
    for o in live:
        for key, labs in decl.edge_proj[o].items():
            vk = frozenset(vert_of.get((o, c), -1) for c in key)
            want_edges.setdefault(vk, set()).update(labs)
    got_user_edges = {}
    seen_pairs = set()
    for e in d["edges"]:
        key = frozenset(e["v"])
        if key in seen_pairs:
            bad("edge-listed-twice", f"{e['v']}")
        seen_pairs.add(key)
        if key not in block_edges:
            bad("edge-not-a-block-edge", f"{e['kind']} {e['v']}")
        if e["kind"] == "project":
            used_labels.update(e["labels"])
            if not any(lab.startswith("sphere_") for lab in e["labels"]):
                got_user_edges[key] = set(e["labels"])
    if got_user_edges != want_edges:
        bad("projected-edges", f"written {[(sorted(k), sorted(v)) for k, v in got_user_edges.items()]}, declared {[(sorted(k), sorted(v)) for k, v in want_edges.items()]}")
    want_pts = {}
    for o in live:
        for c, labs in decl.corner_proj[o].items():
            want_pts.setdefault(vert_of.get((o, c), -1), []).extend(labs)
    got_pts = {i: v["project"] for i, v in enumerate(d["vertices"]) if v["project"]}
    for labs in got_pts.values():
        used_labels.update(labs)
    # (which vertices carry a projection is C10's clause; here only: nothing is projected that nobody declared)
    extra = {k: v for k, v in got_pts.items() if k not in want_pts and not any(lab.startswith("sphere_") for lab in v)}
    if extra:
        bad("undeclared-projected-vertices", f"written {extra}, declared {want_pts}")
    for lab in used_labels:
        if lab.startswith("sphere_") and lab not in d["geometry"]:
            bad("built-in-geometry-undefined", f"{lab} is projected to but not defined")
    if case["base"] in ("hemi_box", "hemi_copy") and 0 not in decl.deleted and not auto:
        bad("built-in-geometry-undefined", "hemisphere geometry missing")
    # VTK
    try:
        vp, vc = foamdict.parse_vtk(vtk)
        if len(vp) != nV or any(np.linalg.norm(np.array(a) - b) > 1e-7 + 5e-9 * np.linalg.norm(b) for a, b in zip(vp, V)):
            bad("vtk-points", f"{len(vp)} points vs {nV} vertices")
        if vc != [blk["v"] for blk in d["blocks"]]:
            bad("vtk-cells", "cells differ from hex entries")
    except Exception as err:
        bad("vtk-not-readable", f"{type(err).__name__}: {err}")
    return {"violations": violations, "outcome": f"{case['base']}:{len(case['prog'])}", "nontrivial": bool(case["prog"]), "execs": 1, "states": 1, "transitions": max(1, len(case["prog"]))}
