"""C11 - predefined shapes give right-handed, conformal, fully choppable blockings."""

from __future__ import annotations

import itertools
import math
import os

import numpy as np

from mc import blockmesh_ref as bm
from mc import runner
from mc.domains import FRAMES, frame_apply, frame_vec

ID = "C11"
LEVEL = "model_checking"
DESIGN_REF = "DESIGN.md 5 C11"
RULE = (
    "configuration space: every predefined shape class / sketch-lofted shape / stack / joint (parameters in a canonical "
    "pose that satisfies the documented preconditions) x rigid frames x size sets, plus all chains of <= k chain steps "
    "over {Cylinder.chain, Frustum.chain, Elbow.chain, Hemisphere.chain, ExtrudedRing.chain/expand/contract, Cylinder.fill} "
    "x {end, start face}; each is assembled (and written after the documented chop calls) on the real library; oracle: "
    "positive corner Jacobians, no geometrically coincident distinct vertices, one face-connected component, outer arcs on "
    "the intended circle, documented chops sufficient, chained shapes share exactly the interface vertices. "
    "non-trivial = every case (each is a distinct class/frame/size or chain)"
    " Shell builders with asymmetric shared points (expected vertex count); BoxPair0-7 (boxes given by any diagonal, off the origin)."
)
ASSUMPTIONS = [
    "blockMesh's hex convention for right-handedness (mc/blockmesh_ref.py)",
    "canonical poses are valid user input by construction (Extrude along the face normal, Elbow sweeping away from its start sketch, ring cross-sections in the documented point order)",
]


def P(frame, p, size=1.0):
    return frame_apply(FRAMES[frame], [np.asarray(p, float) * size])[0]


def V(frame, v, size=1.0):
    return frame_vec(FRAMES[frame], np.asarray(v, float) * size)


# ----------------------------------------------------------------------------
# builders: name -> (function(frame, size) -> entity, chop function(entity), expectations)
def chop_round(e):
    e.chop_axial(count=3)
    e.chop_radial(count=2)
    e.chop_tangential(count=4)


def chop_sketch_shape(e):
    e.chop(0, count=2)
    e.chop(1, count=3)
    e.chop(2, count=2)


def chop_ops(e):
    ops = [e] if not hasattr(e, "operations") else e.operations
    for op in ops:
        for a in range(3):
            op.chop(a, count=2)


def builders():
    import classy_blocks as cb

    def quad(fr, s, z=0.0):
        return [P(fr, p, s) for p in ([0, 0, z], [1, 0.1, z], [1.1, 1, z], [0.1, 0.9, z])]

    def grid(fr, s):
        g = cb.Grid([0, 0, 0], [2 * s, 1 * s, 0], 2, 2)
        return g

    B = {}
    B["Box"] = (lambda fr, s: cb.Box(P(0, [0, 0, 0], s) + FRAMES[fr][1], P(0, [1, 1.3, 0.7], s) + FRAMES[fr][1]), chop_ops, {})
    B["Extrude_scalar"] = (lambda fr, s: cb.Extrude(cb.Face(quad(fr, s)), 0.8 * s), chop_ops, {})
    B["Extrude_vector"] = (lambda fr, s: cb.Extrude(cb.Face(quad(fr, s)), V(fr, [0.2, -0.1, 0.9], s)), chop_ops, {})
    B["Revolve"] = (
        lambda fr, s: cb.Revolve(cb.Face([P(fr, p, s) for p in ([0, 0.5, 0], [1, 0.5, 0], [1, 1.2, 0], [0, 1.0, 0])]), 0.8, V(fr, [1, 0, 0]), P(fr, [0, 0, 0], s)),
        chop_ops,
        {},
    )
    B["RevolvedShape"] = (
        lambda fr, s: cb.RevolvedShape(cb.Grid([0, 1 * s, 0], [2 * s, 2 * s, 0], 2, 2).rotate(*_axis_angle(fr)).translate(FRAMES[fr][1]), 0.8, V(fr, [1, 0, 0]), P(fr, [0, 0, 0], s)),
        chop_ops,
        {"revolve_axis": ([0, 0, 0], [1, 0, 0])},
    )
    B["Wedge"] = (lambda fr, s: cb.Wedge(cb.Face([np.array(p) * s for p in ([0, 0.5, 0], [1, 0.5, 0], [1, 1.2, 0], [0, 1.0, 0])])), None, {"frames": [0]})

    def connector(fr, s):
        b1 = cb.Extrude(cb.Face(quad(fr, s)), 0.8 * s)
        f2 = cb.Face([P(fr, np.array(p) + [0.3, 0.2, 2.0], s) for p in ([0, 0, 0], [1, 0.1, 0], [1.1, 1, 0], [0.1, 0.9, 0])])
        b2 = cb.Extrude(f2, 0.7 * s)
        return _Group([b1, b2, cb.Connector(b1, b2)])

    B["Connector"] = (connector, chop_ops, {"blocks": 3})
    B["Cylinder"] = (lambda fr, s: cb.Cylinder(P(fr, [0, 0, 0], s), P(fr, [0, 0, 1.5], s), P(fr, [0.7, 0, 0], s)), chop_round, {"arc_axis": ([0, 0, 0], [0, 0, 1], 0.7)})
    B["SemiCylinder"] = (lambda fr, s: cb.SemiCylinder(P(fr, [0, 0, 0], s), P(fr, [0, 0, 1.5], s), P(fr, [0.7, 0, 0], s)), chop_round, {"arc_axis": ([0, 0, 0], [0, 0, 1], 0.7)})
    B["Frustum"] = (lambda fr, s: cb.Frustum(P(fr, [0, 0, 0], s), P(fr, [0, 0, 1.5], s), P(fr, [0.7, 0, 0], s), 0.4 * s), chop_round, {})
    B["Frustum_mid"] = (lambda fr, s: cb.Frustum(P(fr, [0, 0, 0], s), P(fr, [0, 0, 1.5], s), P(fr, [0.7, 0, 0], s), 0.4 * s, 0.9 * s), chop_round, {})
    B["Elbow"] = (
        lambda fr, s: cb.Elbow(P(fr, [0, 0, 0], s), P(fr, [0.5, 0, 0], s), V(fr, [0, 0, 1]), 1.1, P(fr, [2, 0, 0], s), V(fr, [0, 1, 0]), 0.4 * s),
        chop_round,
        {},
    )
    for n in range(3, 11):
        B[f"ExtrudedRing{n}"] = (
            lambda fr, s, n=n: cb.ExtrudedRing(P(fr, [0, 0, 0], s), P(fr, [0, 0, 0.8], s), P(fr, [1.0, 0, 0], s), 0.5 * s, n),
            chop_round,
            {"arc_axis": ([0, 0, 0], [0, 0, 1], 1.0), "frames": None if n in (3, 8) else [0, 4]},
        )
    B["RevolvedRing"] = (
        lambda fr, s: cb.RevolvedRing(P(fr, [0, 0, 0], s), P(fr, [1, 0, 0], s), cb.Face([P(fr, p, s) for p in ([0, 0.5, 0], [1, 0.5, 0], [1, 0.9, 0], [0, 1.0, 0])]), 6),
        chop_round,
        {},
    )
    B["Hemisphere"] = (lambda fr, s: cb.Hemisphere(P(fr, [0, 0, 0], s), P(fr, [0.8, 0, 0], s), V(fr, [0, 0, 1])), chop_round, {})

    # Box from its two corner points given in any order, away from the origin and with negative coordinates: two boxes
    # that share a side, each given by one of its four space diagonals in either direction (axis-aligned by definition:
    # frame 0 only)
    def box_pair(k, s):
        lo_a, hi_a = np.array([-3.0, -2.0, 1.0]) * s, np.array([-2.0, 0.0, 1.5]) * s
        lo_b, hi_b = np.array([-2.0, -2.0, 1.0]) * s, np.array([-0.5, 0.0, 1.5]) * s

        def diag(lo, hi, kk):
            start = np.array([hi[i] if (kk >> i) & 1 else lo[i] for i in range(3)])
            return start, lo + hi - start

        return _Group([cb.Box(*diag(lo_a, hi_a, k)), cb.Box(*diag(lo_b, hi_b, 7 - k if k % 2 else (k + 3) % 8))])

    for k in range(8):
        B[f"BoxPair{k}"] = (lambda fr, s, k=k: box_pair(k, s), chop_ops, {"frames": [0], "vertices": 12, "bbox": ([-3.0, -2.0, 1.0], [-0.5, 0.0, 1.5])})

    def shell(fr, s):
        box = cb.Extrude(cb.Face(quad(fr, s)), 0.8 * s)
        faces = [box.get_face("top"), box.get_face("right"), box.get_face("back")]
        sh = cb.Shell(faces, 0.3 * s)
        return sh

    def chop_shell(e):
        e.chop(count=2)
        for op in e.operations[:1]:
            pass
        # in-plane directions of the offset lofts are not covered by Shell.chop: chop every loft
        for op in e.operations:
            op.chop(0, count=2)
            op.chop(1, count=2)

    B["Shell"] = (shell, chop_shell, {"connected": False})

    def shell_roofs_wall(fr, s, wall_first=False):
        # two boxes side by side: both roofs and the front wall of the first one. The points on the wall's upper edge
        # belong to three (two) faces whose normals are not symmetric about their average
        q = [np.asarray(p) for p in quad(fr, s)]
        a = cb.Extrude(cb.Face(q), 0.8 * s)
        b = cb.Extrude(cb.Face([q[1], q[1] + (q[1] - q[0]), q[2] + (q[2] - q[3]), q[2]]), 0.8 * s)
        wall = a.get_face("front")
        wall.invert()
        faces = [a.get_face("top"), b.get_face("top"), wall]
        if wall_first:
            faces = faces[::-1]
        return cb.Shell(faces, 0.2 * s)

    # (each loft shares a side - the quad over a common base edge - with the next: one face-connected component, two
    # vertices per distinct base point)
    B["ShellRoofsWall"] = (shell_roofs_wall, chop_shell, {"vertices": 16, "frames": [0, 4]})
    B["ShellWallRoofs"] = (lambda fr, s: shell_roofs_wall(fr, s, True), chop_shell, {"vertices": 16, "frames": [0, 4]})

    def shell_box6(fr, s):
        box = cb.Extrude(cb.Face(quad(fr, s)), 0.8 * s)
        faces = []
        for side in ("bottom", "top", "left", "right", "front", "back"):
            f = box.get_face(side)
            if side in ("bottom", "left", "front"):
                f.invert()
            faces.append(f)
        return cb.Shell(faces, 0.15 * s)

    B["ShellBox6"] = (shell_box6, chop_shell, {"vertices": 16, "frames": [0, 4]})

    def ext_stack(fr, s):
        st = cb.ExtrudedStack(grid(0, s), 1.5 * s, 3)
        return st

    def rev_stack(fr, s):
        g = cb.Grid([0, 1 * s, 0], [2 * s, 2 * s, 0], 2, 2)
        return cb.RevolvedStack(g, 1.0, [1, 0, 0], [0, 0, 0], 3)

    def tr_stack(fr, s):
        return cb.TransformedStack(grid(0, s), [cb.Translation([0, 0, 0.7 * s]), cb.Rotation([0, 0, 1], 0.3, [0, 0, 0])], 3, [cb.Translation([0, 0, 0.35 * s]), cb.Rotation([0, 0, 1], 0.15, [0, 0, 0])])

    def rot_about(axis, ang):
        def fn(p):
            n = np.asarray(axis, float) / np.linalg.norm(axis)
            return p * math.cos(ang) + np.cross(n, p) * math.sin(ang) + n * float(n @ p) * (1 - math.cos(ang))

        return fn

    B["ExtrudedStack"] = (ext_stack, chop_ops, {"frames": [0]})
    # side_mid: where the arc of a side edge has to pass, as a function of the edge's lower end (canonical frame, size s):
    # every tier's mid sketch is that tier's start sketch under the mid transformations
    B["RevolvedStack"] = (rev_stack, chop_ops, {"frames": [0], "side_mid": lambda p, s: rot_about([1, 0, 0], 1.0 / 3 / 2)(p)})
    B["TransformedStack"] = (tr_stack, chop_ops, {"frames": [0], "side_mid": lambda p, s: rot_about([0, 0, 1], 0.15)(p + np.array([0, 0, 0.35 * s]))})

    sketches = {
        "OneCoreDisk": lambda fr, s: cb.OneCoreDisk(P(fr, [0, 0, 0], s), P(fr, [0.8, 0, 0], s), V(fr, [0, 0, 1])),
        "QuarterDisk": lambda fr, s: _quarter(fr, s),
        "HalfDisk": lambda fr, s: cb.HalfDisk(P(fr, [0, 0, 0], s), P(fr, [0.8, 0, 0], s), V(fr, [0, 0, 1])),
        "FourCoreDisk": lambda fr, s: cb.FourCoreDisk(P(fr, [0, 0, 0], s), P(fr, [0.8, 0, 0], s), V(fr, [0, 0, 1])),
        "WrappedDisk": lambda fr, s: cb.WrappedDisk(P(fr, [0, 0, 0], s), P(fr, [1.0, 1.0, 0], s), 0.5 * s, V(fr, [0, 0, 1])),
        "Oval": lambda fr, s: cb.Oval(P(fr, [0, 0, 0], s), P(fr, [0, 1.0, 0], s), V(fr, [0, 0, 1]), 0.5 * s),
        "QuarterSplineDisk": lambda fr, s: cb.QuarterSplineDisk(P(fr, [0, 0, 0], s), P(fr, [1, 0, 0], s), P(fr, [0, 1.2, 0], s), 0.2 * s, 0.3 * s),
        "HalfSplineDisk": lambda fr, s: cb.HalfSplineDisk(P(fr, [0, 0, 0], s), P(fr, [1, 0, 0], s), P(fr, [0, 1.2, 0], s), 0.2 * s, 0.3 * s),
        "SplineDisk": lambda fr, s: cb.SplineDisk(P(fr, [0, 0, 0], s), P(fr, [1, 0, 0], s), P(fr, [0, 1.2, 0], s), 0.2 * s, 0.3 * s),
        "SplineDisk_circular": lambda fr, s: cb.SplineDisk(P(fr, [0, 0, 0], s), P(fr, [1, 0, 0], s), P(fr, [0, 1.0, 0], s), 0.0, 0.0),
        "QuarterSplineRing": lambda fr, s: cb.QuarterSplineRing(P(fr, [0, 0, 0], s), P(fr, [1, 0, 0], s), P(fr, [0, 1.2, 0], s), 0.2 * s, 0.3 * s, 0.1 * s, 0.2 * s),
        "HalfSplineRing": lambda fr, s: cb.HalfSplineRing(P(fr, [0, 0, 0], s), P(fr, [1, 0, 0], s), P(fr, [0, 1.2, 0], s), 0.2 * s, 0.3 * s, 0.1 * s, 0.2 * s),
        "SplineRing": lambda fr, s: cb.SplineRing(P(fr, [0, 0, 0], s), P(fr, [1, 0, 0], s), P(fr, [0, 1.2, 0], s), 0.2 * s, 0.3 * s, 0.1 * s, 0.2 * s),
    }

    def _quarter(fr, s):
        from classy_blocks.construct.flat.sketches.disk import QuarterDisk

        return QuarterDisk(P(fr, [0, 0, 0], s), P(fr, [0.8, 0, 0], s), V(fr, [0, 0, 1]))

    for sk, mk in sketches.items():
        B[f"Lofted:{sk}"] = (lambda fr, s, mk=mk: cb.ExtrudedShape(mk(fr, s), V(fr, [0.1, 0, 1.0], s)), chop_sketch_shape, {})

    def chop_joint(e):
        e.chop_axial(count=3)
        e.chop_radial(count=2)
        e.chop_tangential(count=4)

    def chop_joint_sized(ts):
        # the way examples/assembly/t_joint.py does it: a cell size along the circumference
        def chop(e):
            e.chop_axial(count=3)
            e.chop_radial(count=2)
            e.chop_tangential(start_size=ts)

        return chop

    for ts in (0.05, 0.02, 0.012, 0.008):
        for jn, jcls in (("LJoint", cb.LJoint), ("TJoint", cb.TJoint)):
            B[f"{jn}_sized{ts}"] = (lambda fr, s, jcls=jcls: jcls(P(fr, [0, 0, 0], s), P(fr, [2, 0, 0], s), P(fr, [0, 0.4, 0], s)), chop_joint_sized(ts), {"frames": [0]})
        for n in (3, 4, 5):
            B[f"NJoint{n}_sized{ts}"] = (lambda fr, s, n=n: cb.NJoint(P(fr, [0, 0, 0], s), P(fr, [2, 0, 0], s), P(fr, [0, 0.4, 0], s), n), chop_joint_sized(ts), {"frames": [0]})
    B["LJoint"] = (lambda fr, s: cb.LJoint(P(fr, [0, 0, 0], s), P(fr, [2, 0, 0], s), P(fr, [0, 0.4, 0], s)), chop_joint, {})
    B["TJoint"] = (lambda fr, s: cb.TJoint(P(fr, [0, 0, 0], s), P(fr, [2, 0, 0], s), P(fr, [0, 0.4, 0], s)), chop_joint, {})
    for n in (3, 4, 5, 6):
        B[f"NJoint{n}"] = (lambda fr, s, n=n: cb.NJoint(P(fr, [0, 0, 0], s), P(fr, [2, 0, 0], s), P(fr, [0, 0.4, 0], s), n), chop_joint, {"frames": [0, 4]})
    return B


def _axis_angle(fr):
    """(angle, axis, origin) arguments of .rotate() that realise the frame's rotation"""
    R = FRAMES[fr][0]
    ang = math.acos(max(-1.0, min(1.0, (np.trace(R) - 1) / 2)))
    if ang < 1e-12:
        return 0.0, [0, 0, 1], [0, 0, 0]
    ax = np.array([R[2, 1] - R[1, 2], R[0, 2] - R[2, 0], R[1, 0] - R[0, 1]])
    return ang, list(ax / np.linalg.norm(ax)), [0, 0, 0]


class _Group:
    """several operations treated as one additive entity (harness helper)"""

    def __init__(self, ops):
        self.operations = ops
        self.geometry = None


CHAIN_STEPS = ["cyl", "cyl_s", "fru", "fru_s", "elb", "elb_s", "hem", "hem_s"]
RING_STEPS = ["ring_chain", "ring_chain_s", "ring_expand", "ring_contract", "ring_fill"]


def cases(tier, seed):
    out = []
    B = builders()
    nfr = len(FRAMES)
    sizes = [1.0] if tier == "quick" else [0.01, 1.0, 37.0]
    for name, (mk, chop, opt) in B.items():
        frames = opt.get("frames") or (sorted({0, 4, 1 + seed % 7}) if tier == "quick" else list(range(nfr)))
        if tier == "thorough" and opt.get("frames") == [0, 4]:
            frames = list(range(nfr))
        for fr in frames:
            for s in sizes:
                out.append({"what": "shape", "name": name, "frame": fr, "size": s})
    # sizes of a model written in millimetres: rings (their sketch checks that its faces are plane) and their relatives
    for name in ("ExtrudedRing8", "Cylinder", "RevolvedRing", "Frustum", "Hemisphere"):
        if name in B:
            out.append({"what": "shape", "name": name, "frame": 4, "size": 2000.0})
    # placement by transformation: the entity is built in the canonical frame and then rotated + translated into
    # the frame by its own methods (this also places the stacks and the wedge, whose constructors take no frame)
    for name, (mk, chop, opt) in B.items():
        for fr in ([4, 1 + (seed + 2) % 7] if tier == "quick" else list(range(1, nfr))):
            if fr != 0:
                out.append({"what": "shape", "name": name, "frame": fr, "size": 1.0, "via": "transform"})
    depth = 2 if tier == "quick" else 3
    frames = [4] if tier == "quick" else [0, 4, 6]
    for fr in frames:
        for k in range(1, depth + 1):
            for seq in itertools.product(CHAIN_STEPS, repeat=k):
                # nothing can be chained onto a hemisphere
                if any(s.startswith("hem") for s in seq[:-1]):
                    continue
                out.append({"what": "chain", "start": "Cylinder", "steps": list(seq), "frame": fr})
                if k == 1 or (k == 2 and tier == "thorough"):
                    out.append({"what": "chain", "start": "Cylinder", "steps": list(seq), "frame": fr, "pre": "mirror"})
        for k in range(1, depth + 1):
            for seq in itertools.product(RING_STEPS, repeat=k):
                if "ring_fill" in seq[:-1]:
                    continue
                out.append({"what": "chain", "start": "ExtrudedRing8", "steps": list(seq), "frame": fr})
                if k == 1 or (k == 2 and tier == "thorough"):
                    out.append({"what": "chain", "start": "ExtrudedRing8", "steps": list(seq), "frame": fr, "pre": "mirror"})
    return out


# ----------------------------------------------------------------------------
def assemble(entities):
    import classy_blocks as cb

    mesh = cb.Mesh()
    for e in entities:
        mesh.add(e)
    mesh.assemble()
    return mesh


def structural_checks(mesh, scale, expect_connected=True):
    """-> list of (clause, detail)"""
    bad = []
    V = np.array([v.position for v in mesh.vertices])
    # right-handedness
    for bi, blk in enumerate(mesh.blocks):
        pts = [v.position for v in blk.vertices]
        ok, worst = bm.is_right_handed(pts)
        if not ok:
            bad.append(("block-not-right-handed", f"block {bi}: smallest corner triple product {worst:.4g}"))
            break
    # conformity: no two distinct vertices at the same place (blocks that touch share vertices)
    tol = 1e-6 * scale
    n = len(V)
    if n:
        order = np.argsort(V[:, 0])
        Vs = V[order]
        for i in range(n):
            j = i + 1
            while j < n and Vs[j, 0] - Vs[i, 0] < tol:
                if np.linalg.norm(Vs[j] - Vs[i]) < tol:
                    bad.append(("coincident-distinct-vertices", f"vertices {order[i]} and {order[j]} both at {np.round(Vs[i], 6).tolist()}"))
                    break
                j += 1
            if bad and bad[-1][0] == "coincident-distinct-vertices":
                break
    # face-connectedness through shared quads
    faces = {}
    for bi, blk in enumerate(mesh.blocks):
        idx = blk.indexes
        for side, cs in bm.FACES.items():
            faces.setdefault(frozenset(idx[c] for c in cs), []).append(bi)
    parent = list(range(len(mesh.blocks)))

    def find(x):
        while parent[x] != x:
            parent[x] = parent[parent[x]]
            x = parent[x]
        return x

    for key, lst in faces.items():
        if len(key) == 4 and len(lst) > 1:
            for b in lst[1:]:
                parent[find(b)] = find(lst[0])
        if len(lst) > 2:
            bad.append(("face-shared-by-more-than-two-blocks", f"{sorted(key)}: blocks {lst}"))
    # curved edges given by a list of points run from their first vertex to their second: the path through the points
    # is hardly longer than the straight way past them (a list that starts next to the END vertex doubles back)
    for ed in mesh.edge_list.edges:
        if ed.kind in ("spline", "polyLine", "curve"):
            pa, pb = np.asarray(ed.vertex_1.position), np.asarray(ed.vertex_2.position)
            pts_e = np.asarray(ed.point_array)
            if len(pts_e) == 0:
                continue
            fwd = float(np.sum(np.linalg.norm(np.diff(np.vstack([pa, pts_e, pb]), axis=0), axis=1)))
            rev = float(np.sum(np.linalg.norm(np.diff(np.vstack([pa, pts_e[::-1], pb]), axis=0), axis=1)))
            if fwd > 1.2 * rev:
                bad.append(("curved-edge-points-run-backwards", f"{ed.kind} {ed.vertex_1.index} {ed.vertex_2.index}: path through the points as listed {fwd:.4f}, through the reversed list {rev:.4f} (chord {np.linalg.norm(pb - pa):.4f})"))
                break
    comps = len({find(b) for b in range(len(mesh.blocks))})
    if expect_connected and comps != 1:
        bad.append(("blocking-not-face-connected", f"{comps} face-connected components for {len(mesh.blocks)} blocks"))
    return bad, comps


def run_shape(case):
    B = builders()
    mk, chop, opt = B[case["name"]]
    fr, s = case["frame"], case["size"]
    coords = dict(case)
    violations = []

    def bad(clause, detail):
        violations.append({"clause": clause, "coords": coords, "detail": detail})

    if case.get("via") == "transform":
        mk0 = mk

        def mk(fr, s):  # noqa: F811
            e = mk0(0, s)
            R, t = FRAMES[fr]
            ang = math.acos(max(-1.0, min(1.0, (np.trace(R) - 1) / 2)))
            ax = np.array([R[2, 1] - R[1, 2], R[0, 2] - R[2, 0], R[1, 0] - R[0, 1]])
            for part in e.operations if isinstance(e, _Group) else [e]:
                if ang > 1e-12:
                    part.rotate(ang, ax / np.linalg.norm(ax), [0, 0, 0])
                part.translate(t)
            return e

    try:
        e = mk(fr, s)
        mesh = assemble([e])
    except Exception as err:
        bad("valid-shape-raised", f"{type(err).__name__}: {err}")
        return {"violations": violations, "outcome": "raised"}
    b2, comps = structural_checks(mesh, s, opt.get("connected", True))
    for clause, detail in b2:
        bad(clause, detail)
    if "vertices" in opt and len(mesh.vertices) != opt["vertices"]:
        bad("vertex-count", f"{len(mesh.vertices)} vertices, expected {opt['vertices']} (blocks that touch share their vertices)")
    if "bbox" in opt and case.get("via") != "transform" and fr == 0:
        VV = np.array([v.position for v in mesh.vertices])
        lo, hi = np.array(opt["bbox"][0]) * s, np.array(opt["bbox"][1]) * s
        if np.max(np.abs(VV.min(axis=0) - lo)) > 1e-9 * s or np.max(np.abs(VV.max(axis=0) - hi)) > 1e-9 * s:
            bad("shape-not-where-it-was-placed", f"vertices span {VV.min(axis=0).tolist()} .. {VV.max(axis=0).tolist()}, the given corners {lo.tolist()} .. {hi.tolist()}")
    if "blocks" in opt and len(mesh.blocks) != opt["blocks"]:
        bad("block-count", f"{len(mesh.blocks)}")
    if "arc_axis" in opt:
        o, ax, R = opt["arc_axis"]
        o, ax = P(fr, o, s), V(fr, ax)
        R = R * s
        for ed in mesh.edge_list.edges:
            if ed.kind in ("arc", "origin", "angle"):
                ends = [np.asarray(ed.vertex_1.position), np.asarray(ed.vertex_2.position)]
                r_ends = [np.linalg.norm(np.cross(p - o, ax)) for p in ends]
                if all(abs(r - R) < 1e-6 * s for r in r_ends):
                    p = np.asarray(ed.third_point.position)
                    r = np.linalg.norm(np.cross(p - o, ax))
                    if abs(r - R) > 1e-6 * s:
                        bad("outer-arc-off-circle", f"arc point at radius {r}, expected {R}")
                        break
    if "revolve_axis" in opt:
        o, ax = opt["revolve_axis"]
        o, ax = P(fr, o, s), V(fr, ax)
        ax = ax / np.linalg.norm(ax)
        for ed in mesh.edge_list.edges:
            if ed.kind in ("arc", "origin", "angle"):
                ends = [np.asarray(ed.vertex_1.position), np.asarray(ed.vertex_2.position)]
                r_ends = [np.linalg.norm(np.cross(q - o, ax)) for q in ends]
                h_ends = [float((q - o) @ ax) for q in ends]
                if abs(r_ends[0] - r_ends[1]) < 1e-6 * s and abs(h_ends[0] - h_ends[1]) < 1e-6 * s:
                    q = np.asarray(ed.third_point.position)
                    if abs(np.linalg.norm(np.cross(q - o, ax)) - r_ends[0]) > 1e-6 * s or abs(float((q - o) @ ax) - h_ends[0]) > 1e-6 * s:
                        bad("outer-arc-off-circle", f"arc of revolution between {ends[0].round(5).tolist()} and {ends[1].round(5).tolist()} passes through {q.round(5).tolist()}: radius {np.linalg.norm(np.cross(q - o, ax))} instead of {r_ends[0]}")
                        break
    if "side_mid" in opt:
        R, t = FRAMES[fr]
        arcs = {frozenset((ed.vertex_1.index, ed.vertex_2.index)): ed for ed in mesh.edge_list.edges if ed.kind in ("arc", "origin", "angle")}
        done = False
        for blk in mesh.blocks:
            for c in range(4):
                lo, hi = blk.vertices[c], blk.vertices[c + 4]
                ed = arcs.get(frozenset((lo.index, hi.index)))
                canon = R.T @ (np.asarray(lo.position) - t)
                want = R @ opt["side_mid"](canon, s) + t
                a, b = np.asarray(lo.position), np.asarray(hi.position)
                if np.linalg.norm(np.cross(want - a, b - a)) < 1e-7 * s * s:
                    continue  # a point on the axis: the three points are collinear and the edge is rightly a line
                if ed is None:
                    bad("side-arc-missing", f"no arc between vertices {lo.index} and {hi.index} of a stack with mid transformations")
                    done = True
                    break
                got = np.asarray(ed.third_point.position)
                if np.linalg.norm(got - want) > 1e-6 * s:
                    bad("side-arc-not-through-mid-sketch", f"side edge {lo.index}-{hi.index}: arc point {got.round(5).tolist()}, the tier's start point under the mid transformations is {want.round(5).tolist()}")
                    done = True
                    break
            if done:
                break
    # documented chops are sufficient
    if chop is not None:
        try:
            e2 = mk(fr, s)
            chop(e2)
            import classy_blocks as cb

            m2 = cb.Mesh()
            m2.add(e2)
            path = os.path.join(runner.scratch_dir(), f"c11_{os.getpid()}")
            m2.write(path)
            text1 = open(path).read()
            # a second, independent construction in the same process must write the same dictionary
            # (class-level tables or caches mutated by the first one would show here)
            e3 = mk(fr, s)
            chop(e3)
            m3 = cb.Mesh()
            m3.add(e3)
            m3.write(path)
            import re

            canon = lambda t: re.sub(r"sphere_\d+", "sphere_#", t)  # noqa: E731
            if canon(open(path).read()) != canon(text1):
                bad("second-construction-differs", "building and writing the same shape twice in one process gives two different dictionaries")
        except Exception as err:
            bad("documented-chops-insufficient", f"{type(err).__name__}: {str(err)[:200]}")
    return {"violations": violations, "outcome": f"{case['name']}:blocks={len(mesh.blocks)}:vertices={len(mesh.vertices)}"}


def run_chain(case):
    import classy_blocks as cb

    fr = case["frame"]
    s = 1.0
    coords = dict(case)
    violations = []

    def bad(clause, detail):
        violations.append({"clause": clause, "coords": coords, "detail": detail})

    if case["start"] == "Cylinder":
        shapes = [cb.Cylinder(P(fr, [0, 0, 0]), P(fr, [0, 0, 1.0]), P(fr, [0.5, 0, 0]))]
    else:
        shapes = [cb.ExtrudedRing(P(fr, [0, 0, 0]), P(fr, [0, 0, 0.8]), P(fr, [1.0, 0, 0]), 0.5, 8)]
    if case.get("pre") == "mirror":
        # the first shape is mirrored about a skew plane off the origin before anything is chained to it
        shapes[0].mirror(list(V(fr, [0.4, -0.2, 1.0])), list(P(fr, [0.3, 0.1, -0.4])))
    # chaining alternately from the end / start of the *first* shape would collide: every step chains to the
    # most recent shape created in that direction
    head = shapes[0]  # last shape in the forward direction
    tail = shapes[0]  # last shape in the backward direction
    tail_is_start = True  # does the free face of `tail` lie at its sketch_1 ?
    interfaces = []
    radial = [shapes[0]]
    try:
        for step in case["steps"]:
            start = step.endswith("_s")
            kind = step.split("_")[0] if not step.startswith("ring") else step
            if step.startswith("ring"):
                src = head
                if step == "ring_chain":
                    new = cb.ExtrudedRing.chain(head, 0.6)
                    interfaces.append((head, new, "end"))
                    head = new
                elif step == "ring_chain_s":
                    # the first backward step starts on the start face of the original ring; later ones continue
                    # from the free (end) face of the previous backward ring
                    new = cb.ExtrudedRing.chain(tail, 0.6, start_face=(tail is shapes[0]))
                    interfaces.append((tail, new, "start" if tail is shapes[0] else "end"))
                    tail = new
                    # the new ring's sketch_1 lies on the source's start face; its free face is sketch_2
                elif step == "ring_expand":
                    # radial relatives of the original ring: expand the outermost, contract/fill the innermost
                    src = max(radial, key=lambda r: r.sketch_1.outer_radius)
                    new = cb.ExtrudedRing.expand(src, 0.3)
                    interfaces.append((src, new, "side"))
                    shapes.append(new)
                    radial.append(new)
                    continue
                elif step == "ring_contract":
                    src = min(radial, key=lambda r: r.sketch_1.inner_radius)
                    new = cb.ExtrudedRing.contract(src, src.sketch_1.inner_radius * 0.6)
                    interfaces.append((src, new, "side"))
                    shapes.append(new)
                    radial.append(new)
                    continue
                else:
                    src = min(radial, key=lambda r: r.sketch_1.inner_radius)
                    new = cb.Cylinder.fill(src)
                    interfaces.append((src, new, "side"))
                    shapes.append(new)
                    continue
                shapes.append(new)
                continue
            src = tail if start else head
            # after a backward chain the new shape's free face is its sketch_2 (it was built going backwards)
            use_start_face = start and (src is shapes[0])
            if start and src is not shapes[0]:
                use_start_face = False
            if kind == "cyl":
                new = cb.Cylinder.chain(src, 0.7, start_face=use_start_face)
            elif kind == "fru":
                new = cb.Frustum.chain(src, 0.7, src.sketch_2.radius * 0.7 if not use_start_face else src.sketch_1.radius * 0.7, start_face=use_start_face)
            elif kind == "elb":
                sk = src.sketch_1 if use_start_face else src.sketch_2
                n = sk.normal if not use_start_face else -sk.normal
                # arc centre to the side of the sketch, rotation axis in the sketch plane: sweep leaves the sketch on its normal's side
                side = (sk.radius_point - sk.center) / np.linalg.norm(sk.radius_point - sk.center)
                arc_center = sk.center + side * 2.0
                axis = np.cross(n, side)
                new = cb.Elbow.chain(src, 0.7, arc_center, axis, sk.radius * 0.8, start_face=use_start_face)
            else:
                new = cb.Hemisphere.chain(src, start_face=use_start_face)
            interfaces.append((src, new, "start" if use_start_face else "end"))
            shapes.append(new)
            if start:
                tail = new
            else:
                head = new
    except Exception as err:
        bad("valid-chain-raised", f"{type(err).__name__}: {err}")
        return {"violations": violations, "outcome": "raised"}
    try:
        mesh = assemble(shapes)
    except Exception as err:
        bad("valid-chain-raised", f"assemble: {type(err).__name__}: {err}")
        return {"violations": violations, "outcome": "raised"}
    b2, comps = structural_checks(mesh, s, True)
    for clause, detail in b2:
        bad(clause, detail)
    # each chained shape shares exactly the vertices of the interface sketch with its source
    op_block = {}
    k = 0
    for sh in shapes:
        for op in sh.operations:
            op_block[id(op)] = mesh.blocks[k]
            k += 1
    for src, new, where in interfaces:
        vs = {v.index for op in src.operations for v in op_block[id(op)].vertices}
        vn = {v.index for op in new.operations for v in op_block[id(op)].vertices}
        shared = vs & vn
        if where in ("end", "start"):
            sk = src.sketch_2 if where == "end" else src.sketch_1
            want = set()
            for f in sk.faces:
                for p in f.point_array:
                    d = [np.linalg.norm(np.asarray(v.position) - p) for v in mesh.vertices]
                    j = int(np.argmin(d))
                    if d[j] < 1e-6:
                        want.add(mesh.vertices[j].index)
            # ... and continues on the far side of the interface, not back into its source
            c_if = np.mean([p for f in sk.faces for p in f.point_array], axis=0)
            c_src = np.mean([np.asarray(v.position) for op in src.operations for v in op_block[id(op)].vertices], axis=0)
            c_new = np.mean([np.asarray(v.position) for op in new.operations for v in op_block[id(op)].vertices], axis=0)
            out_dir = (c_if - c_src) / np.linalg.norm(c_if - c_src)
            if float((c_new - c_if) @ out_dir) <= 0:
                bad("chained-shape-inside-its-source", f"{type(src).__name__}->{type(new).__name__} ({where}): the new shape's centre lies {float((c_new - c_if) @ out_dir):.3f} along the direction source -> interface (it should be ahead of the interface)")
            if shared != want:
                bad("chain-interface-vertices", f"{type(src).__name__}->{type(new).__name__} ({where}): shares {len(shared)} vertices, interface sketch has {len(want)}; symmetric difference {sorted(shared ^ want)[:8]}")
        else:
            if not shared:
                bad("chain-interface-vertices", f"{type(src).__name__}->{type(new).__name__}: no shared vertices")
    return {"violations": violations, "outcome": f"chain{len(case['steps'])}:blocks={len(mesh.blocks)}"}


def _innermost(shapes):
    import classy_blocks as cb

    rings = [s for s in shapes if isinstance(s, cb.ExtrudedRing)]
    return min(rings, key=lambda r: r.sketch_1.inner_radius)


def run_case(case):
    res = run_shape(case) if case["what"] == "shape" else run_chain(case)
    res.setdefault("execs", 2)
    res["nontrivial"] = True
    return res
