"""C13 - optimization never worsens quality; only clamped vertices move, on their constraints."""

from __future__ import annotations

import contextlib
import functools
import io
import itertools
import math

import numpy as np

from mc import blockmesh_ref as bm
from mc import control
from mc.domains import FRAMES, frame_apply, frame_vec, jitter_vec

ID = "C13"
LEVEL = "exploration"
DESIGN_REF = "DESIGN.md 5 C13"
RULE = (
    "case = (grid: 2 boxes / 2x2x1 / 2x2x2 boxes or a 2x2 / 3x3 mapped sketch, jitter level incl. one close to "
    "degenerate, clamp set: one or two movable vertices x clamp type {free, line with bounds, plane, radial, curve, "
    "parametric surface}, optional translation / rotation / symmetry link, minimisation method of 4, 1..3 iterations or the default stopping rule (default arguments, tolerance 0.5, 1e-3), "
    "frame, optimize() called once or twice on the same optimizer, clamps built from copies or from the vertices' own "
    "position arrays); the real optimizer is run with every optimize_clamp call wrapped to snapshot the point array; the "
    "reported quality is compared with a fresh grid over the final points. non-trivial "
    "= a distinct optimisation run"
    " Grid s31k: a clamp on an outer corner of a strip of three quads."
)
ASSUMPTIONS = [
    "every clamp's manifold is constructed through its vertex (an off-manifold clamp would snap and match no junction)",
    "scipy's minimisers are opaque: only the end state and the per-clamp snapshots are compared",
    "set iteration order of Junction.cells fixed to insertion order (ChoiceSet) and numpy's random source seeded per case",
]
METHODS = ["SLSQP", "L-BFGS-B", "Nelder-Mead", "Powell"]
CLAMPS = ["free", "line", "plane", "radial", "curve", "surface"]


def worker_init():
    control.install_choice_sets()


def cases(tier, seed):
    out = []
    q = tier == "quick"
    frames = [0, 4]
    # every clamp type x every method once on the interior vertex of 2x2x2
    for ci, cl in enumerate(CLAMPS):
        for mi, me in enumerate(METHODS):
            out.append({"grid": "h222", "jitter": 1, "clamps": [[0, cl]], "link": None, "method": me, "iterations": 1 + (ci + mi) % 3, "frame": frames[(ci + mi) % 2]})
    # two clamps on 2x2x1 (mid vertices of bottom and top), with and without links
    for cl1, cl2 in (("plane", "plane"), ("line", "plane"), ("plane", "curve"), ("radial", "line")):
        for me in METHODS:
            out.append({"grid": "h221", "jitter": 1, "clamps": [[0, cl1], [1, cl2]], "link": None, "method": me, "iterations": 2, "frame": 0})
    for link in ("translation", "rotation", "symmetry"):
        for me in METHODS:
            out.append({"grid": "h221", "jitter": 1, "clamps": [[0, "plane" if link != "rotation" else "radial"]], "link": link, "method": me, "iterations": 2, "frame": 0 if link != "translation" else 4})
    # one leader with two followers (2x2x2: interior vertex leads the centres of the bottom and the top face)
    for me in METHODS:
        for cl in ("line", "plane"):
            out.append({"grid": "h222", "jitter": 1, "clamps": [[0, cl]], "link": "translation2", "method": me, "iterations": 2, "frame": 4 if cl == "line" else 0})
    # two boxes: a vertex on the shared face
    for cl in ("plane", "line", "surface"):
        out.append({"grid": "h211", "jitter": 2, "clamps": [[0, cl]], "link": None, "method": "SLSQP", "iterations": 2, "frame": 4})
    # sketches
    for grid in ("s22", "s33"):
        for cl in ("plane", "line", "curve"):
            for me in METHODS:
                clamps = [[0, cl]] if grid == "s22" else [[0, cl], [3, "plane"]]
                out.append({"grid": grid, "jitter": 1, "clamps": clamps, "link": None, "method": me, "iterations": 2, "frame": 0})
    # close to degenerate: rollback / skip path
    for me in METHODS:
        out.append({"grid": "h222", "jitter": 3, "clamps": [[0, "free"]], "link": None, "method": me, "iterations": 2, "frame": 0})
        out.append({"grid": "s33", "jitter": 3, "clamps": [[0, "plane"], [1, "plane"], [2, "plane"], [3, "plane"]], "link": None, "method": me, "iterations": 2, "frame": 0})
    # close to degenerate WITH links: a clamp step that is skipped (degenerate trial cell) or rolled back must take the
    # followers back as well
    for me in METHODS:
        for cl in ("line", "line_long", "plane"):
            out.append({"grid": "s33", "jitter": 3, "clamps": [[0, cl]], "link": "translation", "method": me, "iterations": 2, "frame": 0})
            out.append({"grid": "s22b", "jitter": 2, "clamps": [[0, cl]], "link": "translation", "method": me, "iterations": 2, "frame": 0})
        out.append({"grid": "h222", "jitter": 3, "clamps": [[0, "line_long"]], "link": "translation2", "method": me, "iterations": 2, "frame": 0})
        # a boundary vertex clamped on the line between its two boundary neighbours (at either bound it coincides
        # with one of them: the trial cell is degenerate and the step is skipped), an interior vertex linked to it
        for it in (1, 2):
            # (frame 0 only: in a rotated frame the quality of these right-angled cells raises - known finding
            # C14-regular-quad-raises-degenerate - before the optimisation starts)
            out.append({"grid": "s22c", "jitter": 0, "clamps": [[0, "line_nb"]], "link": "translation", "method": me, "iterations": it, "frame": 0})
    # the optimum lies beyond the end of the clamp's curve
    for me in METHODS:
        for it in (1, 2, 3):
            out.append({"grid": "h211", "jitter": 2, "clamps": [[0, "curve_short"]], "link": None, "method": me, "iterations": it, "frame": 0})
            out.append({"grid": "h222", "jitter": 1, "clamps": [[0, "curve_short"]], "link": None, "method": me, "iterations": it, "frame": 4})
    # a clamp on a corner of the grid (a point of one cell only), next to other cells
    for me in METHODS:
        for it in (1, 2):
            out.append({"grid": "s31k", "jitter": 0, "clamps": [[0, "plane"]], "link": None, "method": me, "iterations": it, "frame": 0})
        out.append({"grid": "s31k", "jitter": 0, "clamps": [[0, "plane"], [1, "plane"]], "link": None, "method": me, "iterations": 2, "frame": 0})
        out.append({"grid": "s31k", "jitter": 0, "clamps": [[0, "line"]], "link": None, "method": me, "iterations": 1, "frame": 4})
    # the stopping rule: optimize() with its default arguments and with a coarse / fine tolerance (all other cases
    # run a fixed number of iterations with tolerance 1e-12)
    for ci, cl in enumerate(CLAMPS):
        for dflt in ("all", 0.5, 1e-3):
            out.append({"grid": "h222", "jitter": 1 + ci % 2, "clamps": [[0, cl]], "link": None, "method": "SLSQP", "iterations": 20, "frame": frames[ci % 2], "defaults": dflt})
    for dflt in ("all", 0.5, 1e-3):
        out.append({"grid": "h221", "jitter": 1, "clamps": [[0, "plane"]], "link": "translation", "method": "SLSQP", "iterations": 20, "frame": 0, "defaults": dflt, "runs": 2})
        out.append({"grid": "h221", "jitter": 1, "clamps": [[0, "plane"], [1, "line"]], "link": None, "method": "SLSQP", "iterations": 20, "frame": 0, "defaults": dflt, "runs": 2})
        out.append({"grid": "s33", "jitter": 1, "clamps": [[0, "plane"], [3, "plane"]], "link": None, "method": "SLSQP", "iterations": 20, "frame": 0, "defaults": dflt, "runs": 2})
    # optimize() called twice on one optimizer (every clamp type; links), invariants after each call
    for ci, cl in enumerate(CLAMPS):
        out.append({"grid": "h222", "jitter": 1, "clamps": [[0, cl]], "link": None, "method": METHODS[ci % 4], "iterations": 2, "frame": frames[ci % 2], "runs": 2})
    for link in ("translation", "rotation", "symmetry"):
        out.append({"grid": "h221", "jitter": 1, "clamps": [[0, "plane" if link != "rotation" else "radial"]], "link": link, "method": "SLSQP", "iterations": 2, "frame": 0, "runs": 2})
    # the examples' idiom: clamps built from the vertices' own position arrays; the line of the interior vertex runs
    # between two boundary vertices, one of which is itself clamped (and moves)
    for me in METHODS:
        for runs in (1, 2):
            out.append({"grid": "h222", "jitter": 1, "clamps": [[0, "line_ab"], [1, "plane"]], "link": None, "method": me, "iterations": 2, "frame": 0, "runs": runs, "alias": True})
    for ci, cl in enumerate(CLAMPS):
        out.append({"grid": "h222", "jitter": 1, "clamps": [[0, cl]], "link": None, "method": METHODS[(ci + 1) % 4], "iterations": 2, "frame": 4, "runs": 2, "alias": True})
    # four boxes in a row: the follower's cells are far from the leader's
    for me in METHODS:
        for runs in (1, 2):
            out.append({"grid": "h411", "jitter": 2, "clamps": [[0, "plane"]], "link": "translation", "method": me, "iterations": 2, "frame": 4, "runs": runs})
    # bounds of a radial clamp are arc lengths, whatever the radius
    for me in METHODS:
        out.append({"grid": "h222", "jitter": 1, "clamps": [[0, "radial_big"]], "link": None, "method": me, "iterations": 2, "frame": 0})
        out.append({"grid": "s33", "jitter": 1, "clamps": [[0, "radial_big"]], "link": None, "method": me, "iterations": 2, "frame": 0})
    # an optimizer that outlives a change of its mesh / sketch: a vertex without clamp is moved by the user after the
    # optimizer was created (and again between two optimize() calls); it must stay where the user put it
    for me in METHODS:
        for runs in (1, 2):
            out.append({"grid": "h222", "jitter": 1, "clamps": [[0, "free"]], "link": None, "method": me, "iterations": 1, "frame": 0, "runs": runs, "stale": True})
            out.append({"grid": "s33", "jitter": 1, "clamps": [[0, "plane"]], "link": None, "method": me, "iterations": 1, "frame": 0, "runs": runs, "stale": True})
    out.append({"grid": "h221", "jitter": 1, "clamps": [[0, "plane"]], "link": "translation", "method": "SLSQP", "iterations": 2, "frame": 0, "runs": 2, "stale": True})
    if not q:
        for cl in CLAMPS:
            for me in METHODS:
                for it in (1, 2, 3):
                    for fr in frames:
                        out.append({"grid": "h222", "jitter": 2, "clamps": [[0, cl]], "link": None, "method": me, "iterations": it, "frame": fr})
    return out


# ----------------------------------------------------------------------------
def hex_points(nx, ny, nz):
    ids = {}
    cells = []
    for k in range(nz):
        for j in range(ny):
            for i in range(nx):
                c = []
                for x, y, z in bm.CORNER_XYZ:
                    key = (i + x, j + y, k + z)
                    ids.setdefault(key, len(ids))
                    c.append(ids[key])
                cells.append(c)
    P = np.zeros((len(ids), 3))
    for key, v in ids.items():
        P[v] = key
    return P, cells, ids


def build(case):
    """-> (kind, positions, cells, movable vertex indices (model numbering), frame)"""
    g = case["grid"]
    lvl = [0.0, 0.18, 0.3, 0.46][case["jitter"]]
    if g.startswith("h"):
        nx, ny, nz = int(g[1]), int(g[2]), int(g[3])
        P, cells, ids = hex_points(nx, ny, nz)
        if g == "h222":
            movable = [ids[(1, 1, 1)]]
            if case.get("link") == "translation2":
                movable += [ids[(1, 1, 0)], ids[(1, 1, 2)]]
            if case["clamps"][0][1] == "line_ab":
                movable += [ids[(0, 1, 1)], ids[(2, 1, 1)]]
        elif g == "h411":
            movable = [ids[(1, 0, 1)], ids[(3, 0, 1)]]
        elif g == "h221":
            movable = [ids[(1, 1, 1)], ids[(1, 1, 0)]]
        else:
            movable = [ids[(1, 0, 1)]]
        for k, v in enumerate(movable):
            d = jitter_vec(k + 2) * lvl
            if case.get("link") == "translation2":
                d = jitter_vec(2) * lvl  # leader and followers are displaced alike
                d[2] = 0.0
            if g == "h221":
                d[2] = 0.0  # stay on the top / bottom plane
            if case["clamps"][0][1] == "line_ab":
                # interior vertex along the line a-b, a inside its boundary plane, b where it is
                d = [np.array([d[0], 0.0, 0.0]), np.array([0.0, d[1], d[2]]), np.zeros(3)][k]
            if g == "h411":
                d = jitter_vec(2) * lvl  # leader and follower are displaced alike
            if g in ("h211", "h411"):
                d[0] = 0.0
                d[1] = abs(d[1])
                d[2] = -abs(d[2])  # stay on the shared face, inside the boxes' outline
            P[v] += d
        if case["clamps"][0][1] == "line_ab":
            # the interior vertex sits on the line between the (displaced) a and b, off-centre
            P[movable[0]] = P[movable[1]] + (0.5 - 0.4 * lvl) * (P[movable[2]] - P[movable[1]])
        kind = "hex"
    elif g == "s31k":
        # a strip of three irregular quads; the clamped point is the outer corner, which belongs to ONE quad: moving it
        # shifts that quad's centre and with it the non-orthogonality of the neighbour (a cell that does not hold it)
        P = np.array([[-0.052, 0.004, 0], [0.633, -0.329, 0], [1.697, 0.033, 0], [2.892, -0.230, 0], [0.087, 0.987, 0], [1.148, 1.269, 0], [1.983, 1.222, 0], [3.116, 1.005, 0]], float)
        cells = [[0, 1, 5, 4], [1, 2, 6, 5], [2, 3, 7, 6]]
        movable = [0, 3]
        kind = "quad"
    elif g == "s22c":
        P = np.array([[0, 0, 0], [1.4, 0, 0], [2, 0, 0], [-1, 1, 0], [1.4, 1, 0], [3, 1, 0], [0, 2, 0], [1, 2, 0], [2, 2, 0]], float)
        cells = [[0, 1, 4, 3], [1, 2, 5, 4], [3, 4, 7, 6], [4, 5, 8, 7]]
        movable = [1, 4]
        kind = "quad"
    else:
        n = int(g[1])
        P = np.array([[i, j, 0.0] for j in range(n + 1) for i in range(n + 1)], float)
        cells = [[j * (n + 1) + i, j * (n + 1) + i + 1, (j + 1) * (n + 1) + i + 1, (j + 1) * (n + 1) + i] for j in range(n) for i in range(n)]
        movable = [j * (n + 1) + i for j in range(1, n) for i in range(1, n)]
        if g == "s22b":
            movable.append(n * (n + 1) + 1)  # follower: the middle point of the upper side (a boundary point)
        for k, v in enumerate(movable):
            if g == "s22b" and k == 1:
                continue
            d = jitter_vec(k + 2) * lvl
            d[2] = 0.0
            P[v] += d
        kind = "quad"
    P = frame_apply(FRAMES[case["frame"]], P)
    return kind, P, cells, movable


def make_clamp(kind_name, pos, fr, k, flat_normal=None):
    """clamp whose manifold passes through pos; returns (clamp, checker(position) -> distance to the manifold, bounds check)"""
    import classy_blocks as cb

    R = FRAMES[fr][0]
    u = R @ np.array([1.0, 0.5, 0.2])
    if flat_normal is not None:
        u = u - flat_normal * float(u @ flat_normal)
    u = u / np.linalg.norm(u)
    if kind_name == "free":
        return cb.FreeClamp(pos), (lambda p: 0.0)
    if kind_name in ("line", "line_long"):
        reach = 0.4 if kind_name == "line" else 1.1  # (line_long reaches beyond the neighbouring vertices: trial cells tangle)
        p1, p2 = pos - reach * u, pos + reach * u
        cl = cb.LineClamp(pos, p1, p2)

        def dist(p):
            t = float((p - p1) @ u)
            off = np.linalg.norm((p - p1) - t * u)
            out = max(0.0, -t, t - 2 * reach)
            return max(off, out)

        return cl, dist
    if kind_name == "plane":
        n = flat_normal if flat_normal is not None else R @ np.array([0.2, -0.3, 1.0])
        n = n / np.linalg.norm(n)
        return cb.PlaneClamp(pos, pos, n * 2.0), (lambda p: abs(float((p - pos) @ n)))
    if kind_name in ("radial", "radial_big"):
        n = flat_normal if flat_normal is not None else R @ np.array([0.0, 0.0, 1.0])
        n = n / np.linalg.norm(n)
        side = np.cross(n, u)
        side = side / np.linalg.norm(side)
        # (radial_big: a radius above 1 and narrow bounds that the optimum lies beyond; bounds are arc lengths)
        rad, reach = (0.7, 0.5) if kind_name == "radial" else (1.6, 0.05)
        c = pos + rad * side
        h = float((pos - c) @ n)

        def dist(p):
            d = p - c
            r0, r1 = pos - c - h * n, d - float(d @ n) * n
            turned = math.atan2(float(np.cross(r0, r1) @ n), float(r0 @ r1))
            return max(abs(float(d @ n) - h), abs(np.linalg.norm(np.cross(d, n)) - rad), max(0.0, abs(turned) * rad - reach))

        return cb.RadialClamp(pos, c, n * 3.0, [-reach, reach]), dist
    if kind_name == "curve":
        curve = cb.LineCurve(pos - 0.5 * u, pos + 0.3 * u, (0, 1))
        p1 = pos - 0.5 * u

        def dist(p):
            t = float((p - p1) @ u)
            return max(np.linalg.norm((p - p1) - t * u), max(0.0, -t, t - 0.8))

        return cb.CurveClamp(pos, curve), dist
    if kind_name == "surface":
        e1 = u
        e2 = np.cross(R @ np.array([0.1, 0.2, 1.0]), u)
        e2 /= np.linalg.norm(e2)
        e3 = np.cross(e1, e2)

        def surf(p):
            return pos + p[0] * e1 + p[1] * e2 + 0.3 * (p[0] ** 2 - p[1] ** 2) * e3

        def dist(p):
            d = p - pos
            a, b = float(d @ e1), float(d @ e2)
            return max(abs(float(d @ e3) - 0.3 * (a * a - b * b)), max(0.0, abs(a) - 0.5, abs(b) - 0.5))

        return cb.ParametricSurfaceClamp(pos, surf, [[-0.5, 0.5], [-0.5, 0.5]], [0.0, 0.0]), dist
    raise AssertionError(kind_name)


def run_case(case):
    import classy_blocks as cb

    violations = []

    def bad(clause, detail, **kw):
        violations.append({"clause": clause, "coords": dict(case, **kw), "detail": detail})

    kind, P, cells, movable = build(case)
    fr = case["frame"]
    if kind == "hex":
        mesh = cb.Mesh()
        for c in cells:
            mesh.add(cb.Loft(cb.Face(P[c[:4]]), cb.Face(P[c[4:]])))
        mesh.assemble()
        order = []
        for c in cells:
            for i in c:
                if i not in order:
                    order.append(i)
        to_grid = {i: k for k, i in enumerate(order)}
        opt = cb.MeshOptimizer(mesh, report=False)
        flat = None
        if case["grid"] == "h221":
            flat = FRAMES[fr][0] @ np.array([0, 0, 1.0])
        if case["grid"] in ("h211", "h411"):
            flat = FRAMES[fr][0] @ np.array([1.0, 0, 0])
    else:
        sketch = cb.MappedSketch(P, cells)
        to_grid = {i: i for i in range(len(P))}
        opt = cb.SketchOptimizer(sketch, report=False)
        flat = FRAMES[fr][0] @ np.array([0, 0, 1.0])
    grid = opt.grid
    clamped = {}
    try:
        for k, (mi, cname) in enumerate(case["clamps"]):
            v = movable[mi]
            if cname == "free" and flat is not None:
                cname = "plane"
            pos = P[v].copy()
            flat_k = flat
            if case.get("alias") and kind == "hex":
                pos = mesh.vertices[to_grid[v]].position  # the vertex's own array, as the library's examples do
            if cname == "curve_short":
                # a curve through the vertex that ENDS before the place the vertex wants to go to (the un-jittered
                # position): the optimum is the upper end of the parameter range
                P0 = build(dict(case, jitter=0))[1][v]
                d0 = float(np.linalg.norm(P0 - pos))
                u0 = (P0 - pos) / d0
                c_a, c_b = pos - 0.3 * u0, pos + 0.6 * d0 * u0
                cl = cb.CurveClamp(pos, cb.LineCurve(c_a, c_b, (0, 1)))

                def dist(p, c_a=c_a, c_b=c_b):
                    w = (c_b - c_a) / np.linalg.norm(c_b - c_a)
                    t = float((p - c_a) @ w)
                    return max(np.linalg.norm((p - c_a) - t * w), max(0.0, -t, t - np.linalg.norm(c_b - c_a)))

                opt.add_clamp(cl)
                clamped[to_grid[v]] = (cl, dist, cname)
                continue
            if cname == "radial_big":
                # a circle of radius 1.6 through the vertex whose tangent there points to where the vertex wants to go (its
                # un-jittered position), with bounds (arc lengths) of a third of that way: the optimum is the bound
                P0 = build(dict(case, jitter=0))[1][v]
                way = float(np.linalg.norm(P0 - pos))
                tvec = (P0 - pos) / way
                if flat_k is not None:
                    n_ = flat_k / np.linalg.norm(flat_k)
                    tvec = tvec - n_ * float(tvec @ n_)
                    tvec /= np.linalg.norm(tvec)
                else:
                    n_ = np.cross(tvec, FRAMES[fr][0] @ np.array([0.3, 0.5, 0.81]))
                    n_ /= np.linalg.norm(n_)
                rad, reach = 1.6, way / 3
                c_ = pos + rad * np.cross(tvec, n_)
                cl = cb.RadialClamp(pos, c_, n_ * 3.0, [-reach, reach])

                def dist(p, c_=c_, n_=n_, rad=rad, reach=reach, p_start=pos.copy()):
                    d, d0 = p - c_, p_start - c_
                    r0, r1 = d0 - float(d0 @ n_) * n_, d - float(d @ n_) * n_
                    turned = math.atan2(float(np.cross(r0, r1) @ n_), float(r0 @ r1))
                    return max(abs(float((d - d0) @ n_)), abs(np.linalg.norm(r1) - rad), max(0.0, abs(turned) * rad - reach))

                opt.add_clamp(cl)
                clamped[to_grid[v]] = (cl, dist, cname)
                continue
            if cname == "line_nb":
                a0, b0 = P[0].copy(), P[2].copy()
                cl = cb.LineClamp(pos, a0, b0)

                def dist(p, a0=a0, b0=b0):
                    u = (b0 - a0) / np.linalg.norm(b0 - a0)
                    t = float((p - a0) @ u)
                    return max(np.linalg.norm((p - a0) - t * u), max(0.0, -t, t - np.linalg.norm(b0 - a0)))

                opt.add_clamp(cl)
                clamped[to_grid[v]] = (cl, dist, cname)
                continue
            if cname == "line_ab":
                a_arr, b_arr = (mesh.vertices[to_grid[movable[j]]].position for j in (1, 2))
                a0, b0 = a_arr.copy(), b_arr.copy()
                cl = cb.LineClamp(pos, a_arr, b_arr)

                def dist(p, a0=a0, b0=b0):
                    u = (b0 - a0) / np.linalg.norm(b0 - a0)
                    t = float((p - a0) @ u)
                    return max(np.linalg.norm((p - a0) - t * u), max(0.0, -t, t - np.linalg.norm(b0 - a0)))

                opt.add_clamp(cl)
                clamped[to_grid[v]] = (cl, dist, cname)
                continue
            if case["clamps"][0][1] == "line_ab" and k == 1:
                flat_k = FRAMES[fr][0] @ np.array([1.0, 0, 0])
            cl, dist = make_clamp(cname, pos, fr, k, flat_k)
            opt.add_clamp(cl)
            clamped[to_grid[v]] = (cl, dist, cname)
        follower = None
        followers2 = []
        if case["link"] == "translation2":
            lp = P[movable[0]].copy()
            for fv in movable[1:]:
                fp = P[fv].copy()
                opt.add_link(cb.TranslationLink(lp, fp))
                followers2.append((to_grid[movable[0]], to_grid[fv], fp - lp))
        elif case["link"]:
            leader_v = movable[0]
            fol_v = movable[1]
            lp, fp = P[leader_v].copy(), P[fol_v].copy()
            if case["link"] == "translation":
                link = cb.TranslationLink(lp, fp)
                rel = lambda L, F: np.linalg.norm((F - L) - (fp - lp))  # noqa: E731
            elif case["link"] == "rotation":
                cl, _, _ = clamped[to_grid[leader_v]]
                n = flat / np.linalg.norm(flat)
                u = FRAMES[fr][0] @ np.array([1.0, 0.5, 0.2])
                u = u - n * float(u @ n)
                u /= np.linalg.norm(u)
                centre = lp + 0.7 * np.cross(n, u)
                link = cb.RotationLink(lp, fp, n, centre)

                def rel(L, F):
                    a0 = lp - centre
                    a0 = a0 - n * float(a0 @ n)
                    a1 = L - centre
                    a1 = a1 - n * float(a1 @ n)
                    ang = math.atan2(float(np.cross(a0, a1) @ n), float(a0 @ a1))
                    d = fp - centre
                    want = centre + d * math.cos(ang) + np.cross(n, d) * math.sin(ang) + n * float(n @ d) * (1 - math.cos(ang))
                    return np.linalg.norm(F - want)

            else:
                nrm = FRAMES[fr][0] @ np.array([0, 0, 1.0])
                mid = (lp + fp) / 2
                # mirror plane between leader and follower (they sit above each other in h221)
                link = cb.SymmetryLink(lp, fp, nrm * 2.5, mid)  # non-unit normal
                rel = lambda L, F: np.linalg.norm(F - (L - 2 * float((L - mid) @ nrm) * nrm))  # noqa: E731
            opt.add_link(link)
            follower = (to_grid[leader_v], to_grid[fol_v], rel)
    except Exception as err:
        bad("setup-raised", f"{type(err).__name__}: {err}")
        return {"violations": violations, "outcome": "setup-raised", "execs": 1, "nontrivial": True}

    orig_optimize_clamp = opt.optimize_clamp

    def one_run(run):
        def bad(clause, detail, **kw):  # noqa: F811
            violations.append({"clause": clause, "coords": dict(case, run=run, **kw) if runs > 1 else dict(case, **kw), "detail": detail})

        if case.get("stale"):
            # the user moves a vertex that has no clamp and follows nobody
            free_ids = [i for i in range(len(grid.points)) if i not in clamped and not (follower and i == follower[1]) and all(i != fi for _, fi, _ in followers2)]
            i0 = free_ids[run % len(free_ids)]
            if kind == "hex":
                vtx = mesh.vertices[i0]
                vtx.move_to(vtx.position + 0.05 * (FRAMES[fr][0] @ np.array([1.0, -0.5, 0.25])))
                now = np.array([v.position for v in mesh.vertices])
            else:
                now = np.array(sketch.positions)
                now[i0] = now[i0] + 0.05 * (now[1] - now[0])
                sketch.update(now)
                now = np.array(sketch.positions)
            initial = now.copy()
            q0 = float(type(opt)(mesh if kind == "hex" else sketch, report=False).grid.quality)
        else:
            initial = grid.points.copy()
            q0 = float(grid.quality)
        calls = []
        orig = orig_optimize_clamp

        @functools.wraps(orig)
        def wrapped(clamp, method):
            before = grid.points.copy()
            qb = float(grid.quality)
            orig(clamp, method)
            qa = float(grid.quality)
            calls.append((qb, qa, before, grid.points.copy()))

        opt.optimize_clamp = wrapped
        try:
            with contextlib.redirect_stdout(io.StringIO()):  # the iteration table is printed whatever `report` says
                if case.get("defaults"):
                    # the call of the library's examples: optimize() with its own iteration limit / tolerance / method
                    driver = opt.optimize() if case["defaults"] == "all" else opt.optimize(tolerance=case["defaults"])
                    limit = 20
                else:
                    driver = opt.optimize(max_iterations=case["iterations"], tolerance=1e-12, method=case["method"])
                    limit = case["iterations"]
        except Exception as err:
            bad("optimize-raised", f"{type(err).__name__}: {err}")
            return None
        n_clamps = len(opt.grid.clamps)
        if len(calls) > limit * n_clamps:
            bad("iteration-limit-exceeded", f"{len(calls)} clamp steps for {n_clamps} clamps and a limit of {limit} iterations")
        q1 = float(grid.quality)
        final = grid.points
        if q1 > q0 * (1 + 1e-9) + 1e-12:
            bad("quality-worsened", f"summed quality {q0} -> {q1}")
        for ci, (qb, qa, before, after) in enumerate(calls):
            if qa > qb * (1 + 1e-9) + 1e-12:
                bad("clamp-step-worsened-quality", f"optimize_clamp call {ci}: {qb} -> {qa}", call=ci)
            if qa >= qb and not np.array_equal(before, after):
                bad("no-improvement-but-points-moved", f"optimize_clamp call {ci} did not improve the grid ({qb} -> {qa}) but left {int(np.sum(np.any(before != after, axis=1)))} points moved (half-applied / not rolled back)", call=ci)
        moved_ok = set(clamped)
        if follower:
            moved_ok.add(follower[1])
        for li, fi, offset in followers2:
            moved_ok.add(fi)
            if np.linalg.norm((final[fi] - final[li]) - offset) > 1e-7:
                bad("follower-relation-broken", f"translation link to grid point {fi}: follower off by {np.linalg.norm((final[fi] - final[li]) - offset):.3g}")
        for i in range(len(final)):
            if i not in moved_ok and not np.array_equal(final[i], initial[i]):
                bad("unclamped-vertex-moved", f"grid point {i} moved by {np.linalg.norm(final[i] - initial[i]):.3g}", point=i)
                break
        for gi, (cl, dist, cname) in clamped.items():
            d = dist(final[gi])
            if d > 1e-6:
                bad("clamped-vertex-off-constraint", f"{cname} clamp: vertex is {d:.3g} off its manifold / bounds", point=gi)
            if np.linalg.norm(np.asarray(cl.position) - final[gi]) > 1e-9:
                bad("clamp-position-differs-from-grid", f"{cname}: clamp reports {np.round(cl.position, 6).tolist()}, grid has {np.round(final[gi], 6).tolist()}", point=gi)
        if follower:
            li, fi, rel = follower
            r = rel(final[li], final[fi])
            if r > 1e-7:
                bad("follower-relation-broken", f"{case['link']} link: follower off by {r:.3g}")
        # backport: mesh vertices / sketch points equal the optimizer's final positions
        if kind == "hex":
            mv = np.array([v.position for v in mesh.vertices])
        else:
            mv = np.array(sketch.positions)
        if np.max(np.linalg.norm(mv - final, axis=1)) > 1e-12:
            bad("mesh-differs-from-final-positions", f"max difference {np.max(np.linalg.norm(mv - final, axis=1)):.3g}")
        # quality depends on the current shape only: a fresh optimizer over the back-ported mesh/sketch reports the same sum
        fresh = type(opt)(mesh if kind == "hex" else sketch, report=False)
        qf = float(fresh.grid.quality)
        if abs(qf - q1) > 1e-9 * (1 + abs(qf)):
            bad("reported-quality-differs-from-fresh-grid", f"the optimizer's grid reports {q1}, a new grid over the same points {qf}")
        return q0, q1, calls

    runs = case.get("runs", 1)
    all_calls = []
    q_first = q_last = None
    for run in range(runs):
        res = one_run(run)
        if res is None:
            return {"violations": violations, "outcome": "raised", "execs": 1, "nontrivial": True}
        q_first = res[0] if q_first is None else q_first
        q_last = res[1]
        all_calls += res[2]
    q0, q1, calls = q_first, q_last, all_calls
    improved = q1 < q0 - 1e-9
    rolled = sum(1 for qb, qa, b, a in calls if qa >= qb)
    return {
        "violations": violations,
        "outcome": f"{'improved' if improved else 'unchanged'}:rollbacks={'some' if rolled else 'none'}",
        "execs": 1,
        "states": len(calls) + 1,
        "transitions": len(calls),
        "nontrivial": True,
        "counters": {"optimize_clamp_calls": len(calls), "calls_without_improvement": rolled},
    }
