"""C18 - finders are exact; viewpoint re-orientation canonicalises block numbering."""

from __future__ import annotations

import itertools
import math

import numpy as np

from mc import blockmesh_ref as bm
from mc.domains import FRAMES, HEXSYM48, frame_apply, frame_vec, jitter_vec, lattice_cells, renumber

ID = "C18"
LEVEL = "exploration"
DESIGN_REF = "DESIGN.md 5 C18"
RULE = (
    "finders: case = (mesh of lattice boxes or a round shape, frame); inside, every query sphere (centres at vertices, "
    "edge mid-points, cell centres, off-lattice points; radii between consecutive distinct vertex distances, and the "
    "default radius at a vertex displaced by 0 / 0.4 TOL / 3 TOL) and every plane (through vertex triples, displaced by "
    "0 / 0.4 TOL / 3 TOL) is compared with a brute-force search; histories [query] - move one vertex (3 TOL | 0.23) - "
    "queries at the old and the new spot on ONE finder object; round-shape finder: core/shell x start/end. "
    "re-orientation: 6 convex hexahedra x all 48 corner numberings x 5 viewpoint/ceiling pairs x 3 placements; and a lattice "
    "of 144 viewpoints x 2 ceilings all around each hexahedron x 6 numberings: a call that returns keeps the eight points "
    "and right-handedness, and where front and top side lead by 0.12 it must succeed and name them. non-trivial = a distinct query / numbering"
)
ASSUMPTIONS = ["merge tolerance TOL = 1e-7; query radii/planes never within 10 TOL of a vertex except the explicit 0.4 TOL / 3 TOL cases"]
TOL = 1e-7


def cases(tier, seed):
    out = []
    frames = list(range(len(FRAMES))) if tier == "thorough" else sorted({0, 4, 1 + seed % 7})
    for fr in frames:
        for mesh in ("boxes8", "boxes3", "cylinder"):
            out.append({"what": "sphere", "mesh": mesh, "frame": fr})
            out.append({"what": "plane", "mesh": mesh, "frame": fr})
            out.append({"what": "moved", "mesh": mesh, "frame": fr})
        for shape in ("Cylinder", "Frustum", "Elbow"):
            out.append({"what": "round", "shape": shape, "frame": fr})
    for hexa in range(8):
        out.append({"what": "reorient_lattice", "hex": hexa})
    for hexa in range(6):
        for view in range(len(VIEWS)):
            for place in range(len(PLACES)):
                out.append({"what": "reorient", "hex": hexa, "view": view, "place": place})
    return out


def build_mesh(name, fr):
    import classy_blocks as cb

    mesh = cb.Mesh()
    if name.startswith("boxes"):
        cells = lattice_cells(2, 2, 2) if name == "boxes8" else [(0, 0, 0), (1, 0, 0), (1, 1, 1)]
        for c in cells:
            pts = [np.array([c[0] + x, c[1] + y * 1.3, c[2] + z * 0.7]) for x, y, z in bm.CORNER_XYZ]
            pts = frame_apply(FRAMES[fr], pts)
            mesh.add(cb.Loft(cb.Face(pts[:4]), cb.Face(pts[4:])))
    else:
        P = lambda p: frame_apply(FRAMES[fr], [p])[0]  # noqa: E731
        mesh.add(cb.Cylinder(P([0, 0, 0]), P([0, 0, 1.5]), P([0.7, 0, 0])))
    mesh.assemble()
    return mesh


def run_sphere(case):
    import classy_blocks as cb

    mesh = build_mesh(case["mesh"], case["frame"])
    finder = cb.GeometricFinder(mesh)
    V = np.array([v.position for v in mesh.vertices])
    violations = []
    execs = 0
    centres = []
    centres += [V[i] for i in range(0, len(V), max(1, len(V) // 6))]
    centres += [(V[0] + V[1]) / 2, np.mean(V[:8], axis=0), V[0] + 0.37 * (V[5] - V[0]) + 0.11 * jitter_vec(1), np.mean(V, axis=0) + jitter_vec(2) * 3]
    for ci, c in enumerate(centres):
        d = np.sort(np.unique(np.round(np.linalg.norm(V - c, axis=1), 9)))
        radii = [(d[i] + d[i + 1]) / 2 for i in range(len(d) - 1) if d[i + 1] - d[i] > 20 * TOL]
        radii = radii[:: max(1, len(radii) // 8)] + [d[-1] + 1.0]
        if d[0] > 20 * TOL:
            radii.append(d[0] / 2)
        for r in radii:
            execs += 1
            got = {v.index for v in finder.find_in_sphere(c, r)}
            want = {i for i in range(len(V)) if np.linalg.norm(V[i] - c) < r}
            if got != want:
                violations.append({"clause": "sphere-finder-not-exact", "coords": dict(case, centre=ci, radius=float(r)), "detail": f"found {sorted(got)}, brute force {sorted(want)}"})
    # default radius: vertex +- displacement
    for vi in range(0, len(V), max(1, len(V) // 5)):
        for disp, expect in ((0.0, True), (0.4 * TOL, True), (3 * TOL, False)):
            execs += 1
            p = V[vi] + disp * jitter_vec(vi)
            got = {v.index for v in finder.find_in_sphere(p)}
            want = {vi} if expect else set()
            if got != want:
                violations.append({"clause": "sphere-finder-default-radius", "coords": dict(case, vertex=vi, displacement=disp), "detail": f"found {sorted(got)}, expected {sorted(want)}"})
    return violations, execs


def run_moved(case):
    """histories on ONE finder object: [query] - move a vertex - query; the answers are those of the current positions"""
    import classy_blocks as cb

    violations = []
    execs = 0
    probe = build_mesh(case["mesh"], case["frame"])
    n = len(probe.vertices)
    for vi in sorted({0, n // 3, n - 1}):
        for di, dist in enumerate((3 * TOL, 0.23)):
            for pre in ("none", "old-spot", "everything", "plane"):
                mesh = build_mesh(case["mesh"], case["frame"])
                finder = cb.GeometricFinder(mesh)
                V = np.array([v.position for v in mesh.vertices])
                old = V[vi].copy()
                nrm = jitter_vec(vi + 5)
                if pre == "old-spot":
                    finder.find_in_sphere(old)
                elif pre == "everything":
                    finder.find_in_sphere(np.mean(V, axis=0), 100.0)
                elif pre == "plane":
                    finder.find_on_plane(old, nrm)
                new = old + dist * jitter_vec(vi + 3) / np.linalg.norm(jitter_vec(vi + 3))
                mesh.vertices[vi].move_to(new)
                V[vi] = new
                coords = dict(case, vertex=vi, distance=dist, pre=pre)
                queries = [("sphere", old, None), ("sphere", new, None), ("sphere", old, dist / 2), ("sphere", new, dist / 2), ("sphere", np.mean(V, axis=0), 100.0), ("plane", new, nrm), ("plane", old, nrm)]
                for kind, c, r in queries:
                    execs += 1
                    if kind == "sphere":
                        rr = TOL if r is None else r
                        dd = np.linalg.norm(V - c, axis=1)
                        if np.any(np.abs(dd - rr) < 0.2 * TOL):
                            continue
                        got = {v.index for v in (finder.find_in_sphere(c) if r is None else finder.find_in_sphere(c, r))}
                        want = {i for i in range(n) if dd[i] < rr}
                    else:
                        nu = nrm / np.linalg.norm(nrm)
                        dd = np.abs((V - c) @ nu)
                        if np.any((dd > 0.5 * TOL) & (dd < 2 * TOL)):
                            continue
                        got = {v.index for v in finder.find_on_plane(c, nrm)}
                        want = {i for i in range(n) if dd[i] < TOL}
                    if got != want:
                        violations.append({"clause": "finder-after-move", "coords": dict(coords, query=kind, at="old" if c is old else "new" if c is new else "all", radius=r), "detail": f"found {sorted(got)}, brute force on the current positions {sorted(want)}"})
    return violations, execs


def run_plane(case):
    import classy_blocks as cb

    mesh = build_mesh(case["mesh"], case["frame"])
    finder = cb.GeometricFinder(mesh)
    V = np.array([v.position for v in mesh.vertices])
    violations = []
    execs = 0
    n = len(V)
    triples = [(0, 1, 2), (0, 1, 5), (0, 3, 6), (1, 4, min(7, n - 1)), (0, 2, n - 1), (2, n // 2, n - 2)]
    for ti, (a, b, c) in enumerate(triples):
        nrm = np.cross(V[b] - V[a], V[c] - V[a])
        if np.linalg.norm(nrm) < 1e-6:
            continue
        nu = nrm / np.linalg.norm(nrm)
        dist = (V - V[a]) @ nu
        # skip planes that pass within 10 TOL (but not exactly through) other vertices
        if np.any((np.abs(dist) > 1e-9) & (np.abs(dist) < 10 * TOL)):
            continue
        on = {i for i in range(n) if abs(dist[i]) < 1e-9}
        for disp, keep in ((0.0, True), (0.4 * TOL, True), (-0.4 * TOL, True), (3 * TOL, False), (-3 * TOL, False)):
            execs += 1
            got = {v.index for v in finder.find_on_plane(V[a] + disp * nu, nrm * 2.5)}
            want = on if keep else set()
            if got != want:
                violations.append({"clause": "plane-finder-not-exact", "coords": dict(case, triple=ti, displacement=disp), "detail": f"found {sorted(got)}, brute force {sorted(want)}"})
    return violations, execs


def run_round(case):
    import classy_blocks as cb

    fr = case["frame"]
    P = lambda p: frame_apply(FRAMES[fr], [p])[0]  # noqa: E731
    Vv = lambda v: frame_vec(FRAMES[fr], v)  # noqa: E731
    if case["shape"] == "Cylinder":
        shape = cb.Cylinder(P([0, 0, 0]), P([0, 0, 1.5]), P([0.7, 0, 0]))
        ends = [(P([0, 0, 0]), 0.7), (P([0, 0, 1.5]), 0.7)]
    elif case["shape"] == "Frustum":
        shape = cb.Frustum(P([0, 0, 0]), P([0, 0, 1.5]), P([0.7, 0, 0]), 0.4)
        ends = [(P([0, 0, 0]), 0.7), (P([0, 0, 1.5]), 0.4)]
    else:
        shape = cb.Elbow(P([0, 0, 0]), P([0.5, 0, 0]), Vv([0, 0, 1]), 1.1, P([2, 0, 0]), Vv([0, 1, 0]), 0.4)
        c2 = np.array([2, 0, 0]) + _rot(np.array([-2.0, 0, 0]), np.array([0, 1.0, 0]), 1.1)
        ends = [(P([0, 0, 0]), 0.5), (P(c2), 0.4)]
    mesh = cb.Mesh()
    mesh.add(shape)
    # a second shape chained to the end so that the mesh has vertices that are NOT on the queried faces
    mesh.add(cb.Cylinder.chain(shape, 0.8))
    mesh.assemble()
    finder = cb.RoundSolidFinder(mesh, shape)
    V = np.array([v.position for v in mesh.vertices])
    violations = []
    execs = 0
    expected = {}
    for end_face in (False, True):
        centre, R = ends[1 if end_face else 0]
        sk = shape.sketch_2 if end_face else shape.sketch_1
        nrm = np.array(sk.normal)
        nrm = nrm / np.linalg.norm(nrm)
        on_plane = [i for i in range(len(V)) if abs(float((V[i] - centre) @ nrm)) < 1e-6 and np.linalg.norm(V[i] - centre) < R + 1e-6]
        rim = {i for i in on_plane if abs(np.linalg.norm(V[i] - centre) - R) < 1e-6}
        expected[("core", end_face)] = set(on_plane) - rim
        expected[("shell", end_face)] = rim
    # histories of two queries on ONE finder object (all ordered pairs): the answer must not depend on what was asked before
    queries = list(expected)
    for q1 in queries:
        for q2 in queries:
            fnd = cb.RoundSolidFinder(mesh, shape)
            for q in (q1, q2):
                execs += 1
                got = {v.index for v in (fnd.find_core(q[1]) if q[0] == "core" else fnd.find_shell(q[1]))}
                if got != expected[q]:
                    violations.append({"clause": f"round-finder-{q[0]}", "coords": dict(case, end_face=q[1], history=[list(q1), list(q2)]), "detail": f"found {sorted(got)}, geometric {q[0]} of that face {sorted(expected[q])}"})
    for end_face in (False, True):
        centre, R = ends[1 if end_face else 0]
        sk = shape.sketch_2 if end_face else shape.sketch_1
        nrm = np.array(sk.normal)
        nrm = nrm / np.linalg.norm(nrm)
        on_plane = [i for i in range(len(V)) if abs(float((V[i] - centre) @ nrm)) < 1e-6 and np.linalg.norm(V[i] - centre) < R + 1e-6]
        rim = {i for i in on_plane if abs(np.linalg.norm(V[i] - centre) - R) < 1e-6}
        inner = set(on_plane) - rim
        for which, want in (("core", inner), ("shell", rim)):
            execs += 1
            got = {v.index for v in (finder.find_core(end_face) if which == "core" else finder.find_shell(end_face))}
            if got != want:
                violations.append({"clause": f"round-finder-{which}", "coords": dict(case, end_face=end_face), "detail": f"found {sorted(got)}, geometric {which} of that face {sorted(want)}"})
    # an entity that was added BEFORE the shape is deleted after the assembly (blocks are renumbered): old and new finders
    # still return the shape's own vertices
    for when in ("finder made before the deletion", "finder made after the deletion"):
        mesh2 = cb.Mesh()
        box = cb.Box(P([5, 5, 5]), P([6, 6, 6])) if fr == 0 else cb.Loft(cb.Face([P([5, 5, 5]), P([6, 5, 5]), P([6, 6, 5]), P([5, 6, 5])]), cb.Face([P([5, 5, 6]), P([6, 5, 6]), P([6, 6, 6]), P([5, 6, 6])]))
        shape2 = cb.Cylinder(P([0, 0, 0]), P([0, 0, 1.5]), P([0.7, 0, 0]))
        mesh2.add(box)
        mesh2.add(shape2)
        mesh2.assemble()
        fnd2 = cb.RoundSolidFinder(mesh2, shape2)
        want2 = {(ef, w): sorted(tuple(np.round(v.position, 6)) for v in (fnd2.find_core(ef) if w == "core" else fnd2.find_shell(ef))) for ef in (False, True) for w in ("core", "shell")}
        mesh2.delete(box)
        if when.endswith("after the deletion"):
            fnd2 = cb.RoundSolidFinder(mesh2, shape2)
        for (ef, w), want in want2.items():
            execs += 1
            try:
                got = sorted(tuple(np.round(v.position, 6)) for v in (fnd2.find_core(ef) if w == "core" else fnd2.find_shell(ef)))
            except Exception as err:
                got = f"{type(err).__name__}: {err}"
            if got != want:
                violations.append({"clause": "round-finder-after-delete", "coords": dict(case, end_face=ef, which=w, when=when), "detail": f"{len(want)} vertices before a box that was added earlier was deleted, afterwards: {got if isinstance(got, str) else len(got)}"})
    # query - move - query on ONE finder: the vertices of a face are the same vertices after they were moved (what an
    # optimizer does with them)
    fnd = cb.RoundSolidFinder(mesh, shape)
    for end_face in (False, True):
        core0 = {v.index for v in fnd.find_core(end_face)}
        shell0 = {v.index for v in fnd.find_shell(end_face)}
        sk = shape.sketch_2 if end_face else shape.sketch_1
        nrm = np.array(sk.normal) / np.linalg.norm(sk.normal)
        for v in mesh.vertices:
            if v.index in core0 or v.index in shell0:
                v.translate(0.07 * nrm + 0.01 * np.array([0.3, -0.2, 0.1]))
        execs += 2
        core1 = {v.index for v in fnd.find_core(end_face)}
        shell1 = {v.index for v in fnd.find_shell(end_face)}
        if core1 != core0 or shell1 != shell0:
            violations.append({"clause": "round-finder-after-move", "coords": dict(case, end_face=end_face), "detail": f"core {len(core0)} -> {len(core1)} vertices, rim {len(shell0)} -> {len(shell1)} after the vertices of the face were moved by 0.07"})
    return violations, execs


def _rot(v, n, ang):
    n = n / np.linalg.norm(n)
    return v * math.cos(ang) + np.cross(n, v) * math.sin(ang) + n * float(np.dot(n, v)) * (1 - math.cos(ang))


def hexahedra():
    cube = np.array(bm.CORNER_XYZ, dtype=float)
    out = [cube * [1, 1.4, 0.8]]
    sh = cube.copy()
    sh[:, 0] += 0.25 * sh[:, 1]
    out.append(sh)
    tp = cube.copy()
    tp[4:, :2] = 0.5 + (tp[4:, :2] - 0.5) * 0.7
    out.append(tp)
    for k in range(3):
        out.append(cube * [1.2, 1.0, 0.9] + np.array([0.08 * jitter_vec(9 * k + i) for i in range(8)]))
    # warped sides: the top face twisted by 20 degrees about the vertical through its centre (still convex)
    tw = cube.copy()
    a = math.radians(20)
    for i in range(4, 8):
        x, y = tw[i, 0] - 0.5, tw[i, 1] - 0.5
        tw[i, 0], tw[i, 1] = 0.5 + x * math.cos(a) - y * math.sin(a), 0.5 + x * math.sin(a) + y * math.cos(a)
    out.append(tw)
    # planar sides, strongly tapered and skewed: 2 x 2 base, 0.8 x 0.8 top shifted sideways
    out.append(np.array([[-1, -1, 0], [1, -1, 0], [1, 1, 0], [-1, 1, 0], [0.1, 0.1, 1], [0.9, 0.1, 1], [0.9, 0.9, 1], [0.1, 0.9, 1]], float))
    return out


# where the block sits (viewpoints are given relative to the block): near the origin and far from it
PLACES = [(0.4, -0.2, 0.1), (20.0, -5.0, 3.0), (-7.0, 30.0, -12.0)]

VIEWS = [
    ((0.3, -9.0, 0.6), (0.4, 0.2, 11.0)),
    ((12.0, 1.0, 2.0), (0.0, -10.0, 3.0)),
    ((-3.0, -4.0, -8.0), (-9.0, 2.0, 1.0)),
    # (an observer on a body diagonal is not "in front of" any side: the docstring excludes dubiously aligned faces)
    ((2.5, -9.0, 1.5), (1.0, 2.0, 10.0)),
    ((-1.5, 2.0, 9.0), (8.0, 2.5, 1.0)),
]


def run_reorient(case):
    import classy_blocks as cb

    pts = hexahedra()[case["hex"]] + np.array(PLACES[case.get("place", 0)])
    centre = pts.mean(axis=0)
    obs, ceil = VIEWS[case["view"]]
    obs, ceil = np.array(obs) + centre, np.array(ceil) + centre
    violations = []
    execs = 0
    results = {}
    for k, (perm, det) in enumerate(HEXSYM48):
        P = np.array(renumber(list(pts), perm))
        op = cb.Loft(cb.Face(P[:4]), cb.Face(P[4:]))
        execs += 1
        coords = dict(case, numbering=k)
        try:
            cb.ViewpointReorienter(obs, ceil).reorient(op)
        except Exception as err:
            violations.append({"clause": "reorient-raised", "coords": coords, "detail": f"{type(err).__name__}: {err}"})
            continue
        Q = np.array(op.point_array)
        # same 8 points
        if sorted(map(tuple, np.round(Q, 9))) != sorted(map(tuple, np.round(pts, 9))):
            violations.append({"clause": "reorient-points-changed", "coords": coords, "detail": "the 8 points are not the original ones"})
            continue
        ok, worst = bm.is_right_handed(Q)
        if not ok:
            violations.append({"clause": "reorient-not-right-handed", "coords": coords, "detail": f"smallest triple product {worst}"})
        # front faces the observer, top faces the ceiling
        c = Q.mean(axis=0)
        vo = (obs - c) / np.linalg.norm(obs - c)
        vc = ceil - c
        vc = vc - float(vc @ vo) * vo
        vc /= np.linalg.norm(vc)
        dots_o, dots_c = {}, {}
        for side, cs in bm.FACES.items():
            fc = Q[list(cs)].mean(axis=0)
            # outward normal by the face's diagonals, oriented away from the centre
            nrm = np.cross(Q[cs[2]] - Q[cs[0]], Q[cs[3]] - Q[cs[1]])
            nrm /= np.linalg.norm(nrm)
            if float(nrm @ (fc - c)) < 0:
                nrm = -nrm
            dots_o[side] = float(nrm @ vo)
            dots_c[side] = float(nrm @ vc)
        if max(dots_o, key=dots_o.get) != "front" or dots_o["front"] <= 0:
            violations.append({"clause": "reorient-front-not-facing-observer", "coords": coords, "detail": str({s: round(v, 3) for s, v in dots_o.items()})})
        if max(dots_c, key=dots_c.get) != "top" or dots_c["top"] <= 0:
            violations.append({"clause": "reorient-top-not-facing-ceiling", "coords": coords, "detail": str({s: round(v, 3) for s, v in dots_c.items()})})
        results.setdefault(tuple(map(tuple, np.round(Q, 9))), k)
    if len(results) > 1:
        violations.append({"clause": "reorient-depends-on-initial-numbering", "coords": dict(case), "detail": f"{len(results)} different numberings, first produced by input numberings {sorted(results.values())[:6]}"})
    return violations, execs


def run_reorient_lattice(case):
    """a lattice of viewpoints all around the block. Whatever the viewpoint: a call that returns has kept the eight
    points and made the block right-handed. Where the front and the top side are unambiguous (the best-aligned side
    leads by MARGIN), the call must succeed and put them in front / on top."""
    import classy_blocks as cb

    MARGIN = 0.12
    pts = hexahedra()[case["hex"]] + np.array(PLACES[0])
    centre = pts.mean(axis=0)
    violations = []
    execs = 0
    outcomes = {}
    # true outward normals of the six sides of the block as given (numbering 0)
    normals = {}
    for side, cs in bm.FACES.items():
        nrm = np.cross(pts[cs[2]] - pts[cs[0]], pts[cs[3]] - pts[cs[1]])
        nrm /= np.linalg.norm(nrm)
        if float(nrm @ (pts[list(cs)].mean(axis=0) - centre)) < 0:
            nrm = -nrm
        normals[side] = nrm
    opposite = {"bottom": "top", "top": "bottom", "left": "right", "right": "left", "front": "back", "back": "front"}
    for az in range(0, 360, 15):
        for el in (-50, -30, -10, 10, 30, 50):
            a, e = math.radians(az + 3.0), math.radians(el)
            vo = np.array([math.cos(e) * math.cos(a), math.cos(e) * math.sin(a), math.sin(e)])
            for ci, up in enumerate(((0.05, 0.1, 1.0), (0.6, -0.3, 0.8))):
                up = np.array(up) / np.linalg.norm(up)
                if abs(float(up @ vo)) > 0.9:
                    continue
                obs, ceil = centre + 9.0 * vo, centre + 11.0 * up
                vc = up - float(up @ vo) * vo
                vc /= np.linalg.norm(vc)
                d_o = sorted(((float(n @ vo), s) for s, n in normals.items()), reverse=True)
                front = d_o[0][1]
                rest = [s for s in normals if s not in (front, opposite[front])]
                d_c = sorted(((float(normals[s] @ vc), s) for s in rest), reverse=True)
                clear = d_o[0][0] - d_o[1][0] >= MARGIN and d_c[0][0] - d_c[1][0] >= MARGIN
                for k in (0, 7, 13, 22, 31, 40):
                    perm, _ = HEXSYM48[k]
                    P = np.array(renumber(list(pts), perm))
                    op = cb.Loft(cb.Face(P[:4]), cb.Face(P[4:]))
                    execs += 1
                    coords = dict(case, azimuth=az, elevation=el, ceiling=ci, numbering=k, unambiguous=clear)
                    try:
                        cb.ViewpointReorienter(obs, ceil).reorient(op)
                    except Exception as err:
                        outcomes["raised:clear" if clear else "raised:dubious"] = outcomes.get("raised:clear" if clear else "raised:dubious", 0) + 1
                        if clear:
                            violations.append({"clause": "reorient-raised", "coords": coords, "detail": f"front side leads by {d_o[0][0] - d_o[1][0]:.3f}, top side by {d_c[0][0] - d_c[1][0]:.3f}: {type(err).__name__}: {err}"})
                        continue
                    outcomes["returned:clear" if clear else "returned:dubious"] = outcomes.get("returned:clear" if clear else "returned:dubious", 0) + 1
                    Q = np.array(op.point_array)
                    if sorted(map(tuple, np.round(Q, 9))) != sorted(map(tuple, np.round(pts, 9))):
                        violations.append({"clause": "reorient-points-changed", "coords": coords, "detail": f"the call returned, but the block now has {len(set(map(tuple, np.round(Q, 9))))} distinct points, {len(set(map(tuple, np.round(Q, 9))) & set(map(tuple, np.round(pts, 9))))} of them original"})
                        continue
                    ok, worst = bm.is_right_handed(Q)
                    if not ok:
                        violations.append({"clause": "reorient-not-right-handed", "coords": coords, "detail": f"smallest triple product {worst}"})
                        continue
                    # the same block: every side of the result is a side of the block that was given
                    given_sides = {frozenset(map(tuple, np.round(pts[list(cs)], 9))) for cs in bm.FACES.values()}
                    new_sides = {frozenset(map(tuple, np.round(Q[list(cs)], 9))) for cs in bm.FACES.values()}
                    if new_sides != given_sides:
                        violations.append({"clause": "reorient-not-the-same-block", "coords": coords, "detail": f"{len(new_sides - given_sides)} of the six sides of the result are not sides of the given block (its edges join other corners)"})
                        continue
                    if clear:
                        # which original side ended up as front / top
                        def side_of(name):
                            key = frozenset(map(tuple, np.round(Q[list(bm.FACES[name])], 9)))
                            for s0, cs in bm.FACES.items():
                                if frozenset(map(tuple, np.round(pts[list(cs)], 9))) == key:
                                    return s0
                            return None

                        if side_of("front") != front:
                            violations.append({"clause": "reorient-front-not-facing-observer", "coords": coords, "detail": f"side {side_of('front')} of the given block is in front, side {front} faces the observer best (by {d_o[0][0] - d_o[1][0]:.3f})"})
                        elif side_of("top") != d_c[0][1]:
                            violations.append({"clause": "reorient-top-not-facing-ceiling", "coords": coords, "detail": f"side {side_of('top')} is on top, side {d_c[0][1]} faces the ceiling best (by {d_c[0][0] - d_c[1][0]:.3f})"})
    return violations, execs, outcomes


def run_case(case):
    if case["what"] == "reorient_lattice":
        violations, execs, outcomes = run_reorient_lattice(case)
        return {"violations": violations, "outcomes": outcomes, "execs": execs, "nontrivial_n": execs, "states": 1, "transitions": execs}
    fn = {"sphere": run_sphere, "plane": run_plane, "moved": run_moved, "round": run_round, "reorient": run_reorient}[case["what"]]
    violations, execs = fn(case)
    return {"violations": violations, "outcome": case["what"], "execs": execs, "nontrivial_n": execs, "states": 1, "transitions": execs}
