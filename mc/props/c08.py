"""C08 - alternative arc specifications equal the analytic circle (finite lattice)."""

from __future__ import annotations

import math

import numpy as np

from mc.domains import FRAMES, frame_vec

ID = "C08"
LEVEL = "exploration"
DESIGN_REF = "DESIGN.md 5 C08"
RULE = (
    "case = (circle frame: axis in general position x centre x radius); inside, every sector angle of the lattice "
    "+-{0.05,0.3,1,pi/2,2,3,pi-1e-3,pi,pi+1e-3,3.5,4.5,6,2pi-0.05} for angle-and-axis arcs, every angle in (0,pi) for origin "
    "arcs, every (included angle, fraction of the middle point) for three-point arc lengths, evaluated on the real edge "
    "classes and compared with the analytic circle; every history of <= 3 steps {move the second vertex, translate, rotate "
    "the edge} on one origin/angle edge object (evaluated or not before the first step), re-compared after every step; "
    "plus the chord bound for every edge kind. non-trivial = distinct "
    "(frame, centre, radius, angle[, fraction]) point"
    " Origin arcs up to 3.13 rad."
)
ASSUMPTIONS = ["lattice, not continuum", "angle-and-axis arcs follow the right-hand rule from the first to the second vertex"]

THETAS = [0.05, 0.3, 1.0, math.pi / 2, 2.0, 3.0, math.pi - 1e-3, math.pi, math.pi + 1e-3, 3.5, 4.5, 6.0, 2 * math.pi - 0.05]
CENTRES = [(0.0, 0.0, 0.0), (1.5, -2.0, 0.7), (120.0, 340.0, -95.0)]
RADII = [0.001, 0.01, 0.1, 1.0, 10.0, 1000.0]
AXES = [(0, 0, 1), (1, 2, 3), (-2, 1, 0.5), (0.3, -1, 2), (1, 1, -1), (5, 0.1, 0.2)]
FRACTIONS = [0.05 * k for k in range(1, 20)]


def cases(tier, seed):
    out = []
    axes = AXES if tier == "thorough" else [AXES[0], AXES[1], AXES[2 + seed % 4]]
    for ai, ax in enumerate(axes):
        for ci in range(len(CENTRES)):
            for r in RADII:
                out.append({"axis": list(ax), "centre": ci, "radius": r, "what": "arcs"})
    for fr in (range(len(FRAMES)) if tier == "thorough" else (0, 4)):
        out.append({"what": "chord", "frame": fr})
    return out


def rot(v, n, ang):
    return v * math.cos(ang) + np.cross(n, v) * math.sin(ang) + n * float(np.dot(n, v)) * (1 - math.cos(ang))


def vertex(p, i):
    from classy_blocks.items.vertex import Vertex

    return Vertex(p, i)


def run_case(case):
    if case["what"] == "chord":
        return run_chord(case)
    import classy_blocks as cb
    from classy_blocks.items.edges.factory import factory
    from classy_blocks.util import functions as f

    n = np.array(case["axis"], dtype=float)
    n = n / np.linalg.norm(n)
    c = np.array(CENTRES[case["centre"]], dtype=float)
    R = case["radius"]
    u = np.cross(n, [0.2, 0.9, -0.4])
    u = u / np.linalg.norm(u)
    A = c + R * u
    violations = []
    outcomes = {}
    execs = 0
    # absolute tolerance on positions: relative 1e-7 of the radius plus round-off of the (large) centre coordinates
    ptol = 1e-7 * R + 1e-12 * (1 + float(np.linalg.norm(c)))

    def note(k):
        outcomes[k] = outcomes.get(k, 0) + 1

    def coords(**kw):
        return dict({"axis": case["axis"], "centre": case["centre"], "radius": R}, **kw)

    # 1. angle-and-axis
    for th0 in THETAS:
        for sign in (1, -1):
            th = sign * th0
            B = c + rot(A - c, n, th)
            want_mid = c + rot(A - c, n, th / 2)
            execs += 1
            try:
                edge = factory.create(vertex(A, 0), vertex(B, 1), cb.Angle(th, n * 3.7))
                mid = np.array(edge.third_point.position)
                length = edge.length
            except Exception as err:
                violations.append({"clause": "angle-arc-raised", "coords": coords(theta=th), "detail": f"{type(err).__name__}: {err}"})
                note("angle:raised")
                continue
            note("angle:ok")
            if abs(np.linalg.norm(mid - c) - R) > ptol or abs(float(np.dot(mid - c, n))) > ptol:
                violations.append({"clause": "angle-mid-not-on-circle", "coords": coords(theta=th), "detail": f"|p-c|={np.linalg.norm(mid - c)}, axial offset {float(np.dot(mid - c, n))}"})
            elif np.linalg.norm(mid - want_mid) > 10 * ptol:
                violations.append({"clause": "angle-mid-wrong-side", "coords": coords(theta=th), "detail": f"middle point {mid.tolist()}, middle of the described arc {want_mid.tolist()} (distance {np.linalg.norm(mid - want_mid):.6g}, R={R})"})
            if not math.isclose(length, R * abs(th), rel_tol=1e-6):
                violations.append({"clause": "angle-arc-length", "coords": coords(theta=th), "detail": f"length {length}, R*|theta| = {R * abs(th)}"})
            if length < np.linalg.norm(B - A) * (1 - 1e-9):
                violations.append({"clause": "length-below-chord", "coords": coords(theta=th, kind="angle"), "detail": f"{length} < {np.linalg.norm(B - A)}"})
    # 2. origin (flatness 1, equidistant origin), angles in (0, pi)
    # (up to 179.4 degrees: the origin of a nearly half circle is nearly the middle of the chord)
    for th in [t for t in THETAS if t < math.pi - 1e-2] + [3.04, 3.06, 3.1, 3.13]:
        for sign in (1, -1):
            B = c + rot(A - c, n, sign * th)
            want_mid = c + rot(A - c, n, sign * th / 2)
            execs += 1
            try:
                edge = factory.create(vertex(A, 0), vertex(B, 1), cb.Origin(c))
                mid = np.array(edge.third_point.position)
                length = edge.length
            except Exception as err:
                violations.append({"clause": "origin-arc-raised", "coords": coords(theta=sign * th), "detail": f"{type(err).__name__}: {err}"})
                note("origin:raised")
                continue
            note("origin:ok")
            if np.linalg.norm(mid - want_mid) > 10 * ptol:
                violations.append({"clause": "origin-mid", "coords": coords(theta=sign * th), "detail": f"{mid.tolist()} vs {want_mid.tolist()}"})
            if not math.isclose(length, R * th, rel_tol=1e-6):
                violations.append({"clause": "origin-arc-length", "coords": coords(theta=sign * th), "detail": f"{length} vs {R * th}"})
    # 3. classic three-point arc: length of the circle through the points on the side of the given point
    for th in THETAS:
        B = c + rot(A - c, n, th)
        for phi in FRACTIONS:
            P = c + rot(A - c, n, th * phi)
            execs += 1
            try:
                length = f.arc_length_3point(A, P, B)
            except Exception as err:
                violations.append({"clause": "three-point-raised", "coords": coords(theta=th, fraction=round(phi, 2)), "detail": f"{type(err).__name__}: {err}"})
                note("3pt:raised")
                continue
            note("3pt:ok")
            # large centres: the centre is recomputed from the points -> tolerance from cancellation
            rel = 1e-6 + 1e-9 * float(np.linalg.norm(c)) / R
            if not math.isclose(length, R * th, rel_tol=rel):
                violations.append({"clause": "three-point-length", "coords": coords(theta=th, fraction=round(phi, 2)), "detail": f"length {length}, R*theta = {R * th}"})
            if length < np.linalg.norm(B - A) * (1 - 1e-9):
                violations.append({"clause": "length-below-chord", "coords": coords(theta=th, fraction=round(phi, 2), kind="arc"), "detail": f"{length} < {np.linalg.norm(B - A)}"})
    # 4. histories on ONE edge object: the arc must follow its end points and its data. After every step of every
    #    sequence of <= 3 steps from {M: slide/stretch the second vertex, T: translate the edge, R: rotate the edge}
    #    (with and without an evaluation before the first step) the middle point, the length and the written line are
    #    compared with the analytic circle of the current state.
    import itertools
    import re

    d_vec = R * np.array([0.7, -1.9, 0.4])
    r_axis = np.array([0.3, 1.0, -0.5]) / np.linalg.norm([0.3, 1.0, -0.5])
    r_org = c + R * np.array([0.5, 0.2, -0.3])
    r_ang = 0.8
    seqs = [q for k in (1, 2, 3) for q in itertools.product("MTR", repeat=k)]
    for kind, th in (("origin", 0.3), ("origin", -2.0), ("angle", 1.0), ("angle", -2.0), ("angle", 3.5), ("angle", -4.5)):
        for pre in (0, 1):
            for seq in seqs:
                execs += 1
                st = {"A": A.copy(), "c": c.copy(), "n": n.copy(), "th": th, "B": c + rot(A - c, n, th)}
                data = cb.Origin(c) if kind == "origin" else cb.Angle(th, n * 3.7)
                edge = factory.create(vertex(st["A"], 0), vertex(st["B"], 1), data)

                def evaluate(step):
                    mid = np.array(edge.third_point.position)
                    length = edge.length
                    m = re.search(r"\n?\tarc 0 1 \(([^)]*)\)", edge.description)
                    written = np.array([float(x) for x in m.group(1).split()])
                    want = st["c"] + rot(st["A"] - st["c"], st["n"], st["th"] / 2)
                    rad = float(np.linalg.norm(st["A"] - st["c"]))
                    tol = 10 * ptol + 1e-7 * rad
                    cc = coords(kind=kind, theta=th, pre=pre, seq="".join(seq), step=step)
                    if np.linalg.norm(mid - want) > tol:
                        violations.append({"clause": "history-mid-point", "coords": cc, "detail": f"after {''.join(seq[:step])}: middle point {mid.tolist()}, circle of the current end points/data gives {want.tolist()}"})
                        return False
                    if np.linalg.norm(written - want) > tol + 1e-8 * (1 + float(np.linalg.norm(want))):
                        violations.append({"clause": "history-written-point", "coords": cc, "detail": f"after {''.join(seq[:step])}: written {written.tolist()}, expected {want.tolist()}"})
                        return False
                    if not math.isclose(length, rad * abs(st["th"]), rel_tol=1e-6):
                        violations.append({"clause": "history-length", "coords": cc, "detail": f"after {''.join(seq[:step])}: length {length}, R*|theta| = {rad * abs(st['th'])}"})
                        return False
                    return True

                try:
                    if pre:
                        evaluate(0)
                    for k, op in enumerate(seq):
                        if op == "M":
                            if kind == "origin":
                                # slide the second vertex along the circle
                                st["th"] = st["th"] * 0.5 if abs(st["th"]) > 1 else st["th"] * 3.0
                                st["B"] = st["c"] + rot(st["A"] - st["c"], st["n"], st["th"])
                            else:
                                # stretch the chord: same angle, larger circle
                                st["B"] = st["A"] + 1.7 * (st["B"] - st["A"])
                                st["c"] = st["A"] + 1.7 * (st["c"] - st["A"])
                            edge.vertex_2.move_to(st["B"])
                        elif op == "T":
                            for key in ("A", "B", "c"):
                                st[key] = st[key] + d_vec
                            edge.translate(d_vec)
                        else:
                            for key in ("A", "B", "c"):
                                st[key] = r_org + rot(st[key] - r_org, r_axis, r_ang)
                            st["n"] = rot(st["n"], r_axis, r_ang)
                            edge.rotate(r_ang, r_axis, r_org)
                        if not evaluate(k + 1):
                            break
                    note(f"history:{kind}")
                except Exception as err:
                    violations.append({"clause": "history-raised", "coords": coords(kind=kind, theta=th, pre=pre, seq="".join(seq)), "detail": f"{type(err).__name__}: {err}"})
                    note("history:raised")
    return {"violations": violations, "outcomes": outcomes, "execs": execs, "nontrivial_n": execs, "states": 1, "transitions": execs}


def run_chord(case):
    """every edge kind: length >= distance between the end points"""
    from mc.props import c07

    violations = []
    execs = 0
    outcomes = {}
    for kind in c07.KINDS:
        for slot in (0, 3, 5, 9):
            if kind == "zero_length" and slot < 8:
                continue
            cs = {"frame": case["frame"], "kind": kind, "slot": slot, "usage": "given", "dup": "none", "order": 0}
            mesh, ops, P, ref, (a, b) = c07.build(cs)
            mesh.assemble()
            execs += 1
            blk = mesh.blocks[0]
            w = blk.wires[a][b]
            chord = float(np.linalg.norm(w.vertices[0].position - w.vertices[1].position))
            try:
                length = w.edge.length
            except Exception as err:
                violations.append({"clause": "edge-length-raised", "coords": cs, "detail": f"{type(err).__name__}: {err}"})
                continue
            outcomes[kind] = outcomes.get(kind, 0) + 1
            if length < chord * (1 - 1e-12) - 1e-15:
                violations.append({"clause": "length-below-chord", "coords": cs, "detail": f"{w.edge.kind}: length {length} < chord {chord}"})
    return {"violations": violations, "outcomes": outcomes, "execs": execs, "nontrivial_n": execs, "states": 1, "transitions": execs}
