"""C05 - one vertex per distinct point; duplicates only across merged patches."""

from __future__ import annotations

import itertools
import os

import numpy as np

from mc import blockmesh_ref as bm
from mc import foamdict, gradlab, runner
from mc.domains import contact

ID = "C05"
LEVEL = "model_checking"
DESIGN_REF = "DESIGN.md 5 C05"
RULE = (
    "[every assembly is followed by clear + assemble and by backport: the vertex partition must not change] "
    "state space: histories of Mesh.add over all insertion orders (explicit BFS over add-sequences, canonical key = "
    "partition of (operation, corner) by vertex) for each (assembly of 2-4 unit boxes, near-coincidence displacement "
    "0 / 0.4 TOL / 3 TOL, interface states {none, named, merged A->B, merged B->A}^interfaces, name mode, order of "
    "merge_patches calls); vertex reference model dict (position cluster, slave-patch set) -> id. non-trivial = at "
    "least one shared corner position"
    " Naming mode chained: one patch name per block (the slave of one pair is the master of the next)."
)
ASSUMPTIONS = [
    "merge tolerance TOL = 1e-7 (documented constant); displaced copies sit at 0.4 TOL (must merge) or 3 TOL (must not)",
    "'the blocks on the slave side' at a position = the operations joined face to face (by faces that are not the merged interface) with one that carries the slave patch there; corners of groups that are joined by an edge or a point only are unconstrained unless they carry the same slave patches",
]
TOL = 1e-7

ASSEMBLIES = {
    "pair": [(0, 0, 0), (1, 0, 0)],
    "row3": [(0, 0, 0), (1, 0, 0), (2, 0, 0)],
    "ell3": [(0, 0, 0), (1, 0, 0), (0, 1, 0)],
    "diag2": [(0, 0, 0), (1, 1, 0)],
    "square4": [(0, 0, 0), (1, 0, 0), (0, 1, 0), (1, 1, 0)],
    "tower3": [(0, 0, 0), (0, 0, 1), (1, 0, 1)],
}
DISPLACEMENTS = [0.0, 0.4 * TOL, 3 * TOL]


def interfaces(cells):
    out = []
    for a, b in itertools.combinations(range(len(cells)), 2):
        if contact(cells[a], cells[b]) == "face":
            out.append((a, b))
    return out


def side_between(ca, cb):
    """side name (blockmesh_ref.FACES) of cell ca that faces cell cb"""
    d = [cb[i] - ca[i] for i in range(3)]
    return {(1, 0, 0): "right", (-1, 0, 0): "left", (0, 1, 0): "back", (0, -1, 0): "front", (0, 0, 1): "top", (0, 0, -1): "bottom"}[tuple(d)]


def cases(tier, seed):
    out = []
    names = list(ASSEMBLIES)
    for name in names:
        cells = ASSEMBLIES[name]
        ifs = interfaces(cells)
        n_if = len(ifs)
        if tier == "quick" and name == "square4":
            states_list = [s for s in itertools.product(range(4), repeat=n_if) if sum(1 for x in s if x) <= 2]
        else:
            states_list = list(itertools.product(range(4), repeat=n_if))
        for disp in range(3):
            for states in states_list:
                merged = sum(1 for s in states if s >= 2)
                # (chained: every block has ONE patch name on all its interface sides - the slave patch of one pair is
                # the master patch of the next, e.g. coarse -> medium -> fine)
                modes = ["unique"] + (["shared"] if merged >= 2 else []) + (["chained"] if merged >= 2 and name in ("tower3", "row3", "ell3") else [])
                for mode in modes:
                    for call_order in ([0, 1] if merged >= 2 else [0]):
                        if tier == "quick" and disp == 2 and merged >= 2 and call_order == 1:
                            continue
                        out.append({"assembly": name, "disp": disp, "states": list(states), "names": mode, "merge_order": call_order})
                        if merged >= 1 and disp == 0 and name in ("pair", "tower3", "ell3") and call_order == 0 and mode == "unique":
                            out.append({"assembly": name, "disp": disp, "states": list(states), "names": mode, "merge_order": call_order, "late_merge": True})
    return out


def bounds(tier):
    return {"max_boxes": 4, "interfaces_active": "<=2 on the 2x2 square in quick, all in thorough", "orders": "all n!"}


# ----------------------------------------------------------------------------
def declare(case):
    """-> per op: points(8), {side: patch name}; merges [(master, slave)]"""
    cells = ASSEMBLIES[case["assembly"]]
    ifs = interfaces(cells)
    d = DISPLACEMENTS[case["disp"]]
    ops = []
    for b, cell in enumerate(cells):
        pts = np.array([[cell[0] + x, cell[1] + y, cell[2] + z] for x, y, z in bm.CORNER_XYZ], dtype=float)
        # every second box (by lattice parity) is displaced as a whole: shared corners become near-coincident
        if sum(cell) % 2 == 1:
            pts = pts + np.array([d, -d * 0.5, d * 0.25]) / np.linalg.norm([1, -0.5, 0.25])
        ops.append({"points": pts, "patches": {}})
    merges = []
    for k, (a, b) in enumerate(ifs):
        st = case["states"][k]
        if st == 0:
            continue
        if case["names"] == "shared" and st >= 2:
            na, nb = ("M", "S") if st == 2 else ("S", "M")
        elif case["names"] == "chained":
            na, nb = f"blk{a}", f"blk{b}"
        else:
            na, nb = f"p{k}a", f"p{k}b"
        ops[a]["patches"][side_between(cells[a], cells[b])] = na
        ops[b]["patches"][side_between(cells[b], cells[a])] = nb
        if st == 2:
            merges.append((na, nb))
        elif st == 3:
            merges.append((nb, na))
    # drop duplicate merge declarations (shared names)
    uniq = []
    for m in merges:
        if m not in uniq:
            uniq.append(m)
    if case["merge_order"] == 1:
        uniq = uniq[::-1]
    return ops, uniq


def model_keys(ops, merges):
    """reference: (op, corner) -> (position cluster id, frozenset(slave patches at that corner))"""
    slaves = {s for _, s in merges}
    clusters = []
    keys = {}
    for b, op in enumerate(ops):
        for c in range(8):
            p = op["points"][c]
            cid = None
            for i, q in enumerate(clusters):
                if np.linalg.norm(p - q) < TOL:
                    cid = i
                    break
            if cid is None:
                clusters.append(p)
                cid = len(clusters) - 1
            at_corner = {name for side, name in op["patches"].items() if c in bm.FACES[side]}
            keys[(b, c)] = (cid, frozenset(at_corner & slaves))
    return keys


def side_groups(ops, merges, keys):
    """which corners at one position belong to the same side of the merged interfaces: two operations are joined at a
    position if they share a whole face (four common positions) that contains it and is not itself a master/slave
    interface; groups = transitive closure. -> {(op, corner): group id}, set of group ids that hold a slave corner,
    {(op, corner): set of merged pairs whose MASTER patch the corner lies on}"""
    pairs = set(merges)
    n = len(ops)
    face_cids = {(b, side): frozenset(keys[(b, c)][0] for c in bm.FACES[side]) for b in range(n) for side in bm.FACES}
    parent = {oc: oc for oc in keys}

    def find(x):
        while parent[x] != x:
            parent[x] = parent[parent[x]]
            x = parent[x]
        return x

    for a in range(n):
        for b in range(a + 1, n):
            for sa in bm.FACES:
                for sb in bm.FACES:
                    if face_cids[(a, sa)] != face_cids[(b, sb)] or len(face_cids[(a, sa)]) != 4:
                        continue
                    na, nb = ops[a]["patches"].get(sa), ops[b]["patches"].get(sb)
                    if (na, nb) in pairs or (nb, na) in pairs:
                        continue  # the merged interface itself
                    for ca in bm.FACES[sa]:
                        for cb_ in bm.FACES[sb]:
                            if keys[(a, ca)][0] == keys[(b, cb_)][0]:
                                parent[find((a, ca))] = find((b, cb_))
    group = {oc: find(oc) for oc in keys}
    slave_groups = {group[oc] for oc, k in keys.items() if k[1]}
    masters = {m: s for m, s in merges}
    on_master = {}
    for (b, c) in keys:
        on_master[(b, c)] = {(name, masters[name]) for side, name in ops[b]["patches"].items() if c in bm.FACES[side] and name in masters}
    return group, slave_groups, on_master


def build(case, order, ops, merges):
    import classy_blocks as cb

    mesh = cb.Mesh()
    lofts = []
    for op in ops:
        loft = cb.Loft(cb.Face(op["points"][:4]), cb.Face(op["points"][4:]))
        for side, name in op["patches"].items():
            loft.set_patch(side, name)
        for a in range(3):
            loft.chop(a, count=1)
        lofts.append(loft)
    if not case.get("late_merge"):
        for m, s in merges:
            mesh.merge_patches(m, s)
    for b in order:
        mesh.add(lofts[b])
    if case.get("late_merge"):
        # the pairs are declared on the ASSEMBLED mesh: the same partition
        mesh.assemble()
        for m, s in merges:
            mesh.merge_patches(m, s)
    return mesh, lofts


def run_case(case):
    cells = ASSEMBLIES[case["assembly"]]
    n = len(cells)
    ops, merges = declare(case)
    keys = model_keys(ops, merges)
    group, slave_groups, on_master = side_groups(ops, merges, keys)
    violations = []
    partitions = {}
    execs = 0
    seen_states = set()
    transitions = 0
    shared_positions = len({k[0] for k in keys.values()}) < 8 * n
    for order in itertools.permutations(range(n)):
        coords = dict(case, order=list(order))
        mesh, lofts = build(case, order, ops, merges)
        try:
            if not case.get("late_merge"):
                mesh.assemble()
        except Exception as err:
            violations.append({"clause": "assemble-raised", "coords": coords, "detail": f"{type(err).__name__}: {err}"})
            continue
        execs += 1
        transitions += n
        idx = {}
        for pos, b in enumerate(order):
            blk = mesh.blocks[pos]
            for c in range(8):
                idx[(b, c)] = blk.indexes[c]
        # prefixes of the add-history are states of the BFS; canonical key = partition restricted to added ops
        for k in range(1, n + 1):
            added = frozenset(order[:k])
            part = frozenset(frozenset(oc for oc in idx if oc[0] in added and idx[oc] == v) for v in set(idx.values()))
            seen_states.add((added, part))
        # oracle on the complete assembly
        items = sorted(idx)
        for i, x in enumerate(items):
            for y in items[i + 1 :]:
                same_v = idx[x] == idx[y]
                kx, ky = keys[x], keys[y]
                if kx[0] != ky[0]:
                    if same_v:
                        violations.append({"clause": "different-positions-share-a-vertex", "coords": coords, "detail": f"{x} and {y} -> vertex {idx[x]}"})
                    continue
                gx, gy = group[x], group[y]
                across = any(s_ in ky[1] for _, s_ in on_master[x]) or any(s_ in kx[1] for _, s_ in on_master[y])
                if across:
                    # one corner lies on the master patch, the other on the slave patch of one merged pair
                    if same_v:
                        violations.append({"clause": "slave-corner-shares-with-master-side", "coords": coords, "detail": f"{x} {sorted(kx[1])} and {y} {sorted(ky[1])} -> vertex {idx[x]}"})
                elif gx == gy and gx in slave_groups:
                    # blocks joined face to face on the slave side of an interface: one copy for all of them, whether or
                    # not each of them carries (the same) slave patch at this corner
                    if not same_v:
                        violations.append({"clause": "slave-side-neighbours-not-sharing-the-copy", "coords": coords, "detail": f"{x} (slave patches here: {sorted(kx[1])}) -> vertex {idx[x]}, {y} ({sorted(ky[1])}) -> vertex {idx[y]}: the two operations share a whole face at this position"})
                elif gx in slave_groups or gy in slave_groups:
                    if kx[1] and kx[1] == ky[1] and not same_v:
                        violations.append({"clause": "same-position-same-slaves-not-shared", "coords": coords, "detail": f"{x} -> {idx[x]}, {y} -> {idx[y]}, slave set {sorted(kx[1])}"})
                    # (anything else between a slave-side group and another group is not decided by the statement)
                elif not same_v:
                    violations.append({"clause": "same-position-same-slaves-not-shared", "coords": coords, "detail": f"{x} -> {idx[x]}, {y} -> {idx[y]}, slave set {sorted(kx[1])}"})
        # dense numbering, list order, file
        vs = mesh.vertex_list.vertices
        if [v.index for v in vs] != list(range(len(vs))):
            violations.append({"clause": "vertex-numbers-not-dense", "coords": coords, "detail": str([v.index for v in vs])})
        if set(idx.values()) != set(range(len(vs))):
            violations.append({"clause": "vertex-list-vs-block-indexes", "coords": coords, "detail": f"{sorted(set(idx.values()))} vs {len(vs)}"})
        if order == tuple(range(n)) or order == tuple(reversed(range(n))):
            path = os.path.join(runner.scratch_dir(), f"c05_{os.getpid()}")
            try:
                mesh.write(path)
                d = foamdict.parse(open(path).read())
                if d["vertex_comments"] != list(range(len(d["vertices"]))) or len(d["vertices"]) != len(vs):
                    violations.append({"clause": "file-vertex-order", "coords": coords, "detail": str(d["vertex_comments"])})
                for pos, b in enumerate(order):
                    if d["blocks"][pos]["v"] != [idx[(b, c)] for c in range(8)]:
                        violations.append({"clause": "file-hex-indexes", "coords": coords, "detail": str(d["blocks"][pos]["v"])})
                    for c in range(8):
                        wp = np.array(d["vertices"][idx[(b, c)]]["pos"])
                        if np.linalg.norm(wp - ops[b]["points"][c]) > 1e-7 + TOL:
                            violations.append({"clause": "file-vertex-position", "coords": coords, "detail": f"{wp} vs {ops[b]['points'][c]}"})
            except Exception as err:
                violations.append({"clause": "write-raised", "coords": coords, "detail": f"{type(err).__name__}: {err}"})
        part = frozenset(frozenset(oc for oc in idx if idx[oc] == v) for v in set(idx.values()))
        partitions.setdefault(part, list(order))
        # the partition is a function of the declarations: assembling the same mesh again gives it again
        for again in ("clear + assemble", "backport"):
            try:
                if again == "backport":
                    mesh.backport()
                else:
                    mesh.clear()
                    mesh.assemble()
            except Exception as err:
                violations.append({"clause": "assemble-raised", "coords": dict(coords, again=again), "detail": f"{type(err).__name__}: {err}"})
                break
            transitions += 1
            idx2 = {(b, c): mesh.blocks[pos].indexes[c] for pos, b in enumerate(order) for c in range(8)}
            part2 = frozenset(frozenset(oc for oc in idx2 if idx2[oc] == v) for v in set(idx2.values()))
            if part2 != part:
                violations.append({"clause": "re-assembly-changes-partition", "coords": dict(coords, again=again), "detail": f"{len(part)} vertices after the first assembly, {len(part2)} after {again}"})
                break
    if len(partitions) > 1:
        violations.append(
            {
                "clause": "partition-depends-on-insertion-order",
                "coords": dict(case),
                "detail": f"{len(partitions)} different partitions, e.g. orders {list(partitions.values())[:3]} -> {[len(p) for p in partitions][:3]} vertices",
            }
        )
    nv = sorted({len(p) for p in partitions})
    return {
        "violations": violations,
        "outcome": f"{case['assembly']}:vertices={nv}",
        "nontrivial": shared_positions,
        "execs": execs,
        "states": len(seen_states),
        "transitions": transitions,
    }
