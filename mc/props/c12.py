"""C12 - assemble/clear/backport/delete/write round-trips preserve the model.

Explicit-state BFS over histories of public Mesh calls; every history is replayed on fresh real
objects; at every `write` the parsed file is compared with the file written by a *freshly built*
mesh of the history's normal form (declaration model)."""

from __future__ import annotations

import collections
import os

import numpy as np

from mc import blockmesh_ref as bm
from mc import foamdict, runner

ID = "C12"
LEVEL = "model_checking"
DESIGN_REF = "DESIGN.md 5 C12"
RULE = (
    "explicit-state BFS over call histories {write, assemble, clear, backport, delete(op i), add (the second box of one model is added by the history), move(shared vertex), "
    "move(private vertex), modify_patch, set_default_patch, merge_patches} with enabledness rules, up to the tier's depth; "
    "a state is the history replayed on a fresh Mesh, deduplicated by a canonical key of the complete library state "
    "(depot points, deleted set, vertices, block indexes, patch table incl. kind/settings, merged pairs, default patch, "
    "grading specification lengths); oracle at every write transition: parsed file == file of a freshly built mesh of the "
    "declaration model's normal form. non-trivial = a history that contains at least one life-cycle call before a write"
    " Every model box has a projected side; the mesh declares two surfaces (add_geometry) and the geometry section is compared."
)
ASSUMPTIONS = [
    "delete(), add() and merge_patches() on an assembled mesh take effect at once (the mesh is assembled again with its vertices where they are): a write() right after them shows the block gone / added / the slave vertices duplicated",
    "order of patches inside 'boundary' is not compared (dictionary order is immaterial to blockMesh semantics of the listed faces)",
]

# M0 moves corner 1 of the first live operation (shared with the next box unless the interface is
# merged), M1 its corner 7 (private)
MOVES = {"M0": (1, (0.1, 0.05, -0.07)), "M1": (7, (-0.06, 0.08, 0.1))}


def variants():
    return {
        "two": {"cells": [(0, 0, 0), (1, 0, 0)]},
        "three": {"cells": [(0, 0, 0), (1, 0, 0), (2, 0, 0)]},
        # the same boxes added to the mesh inside a Shape (operations of shapes can be deleted one by one)
        "shape3": {"cells": [(0, 0, 0), (1, 0, 0), (2, 0, 0)], "bundle": [[0, 1, 2]]},
        "mixed3": {"cells": [(0, 0, 0), (1, 0, 0), (2, 0, 0)], "bundle": [[0], [1, 2]]},
        # the second box is added by an event of the history (possibly after the mesh was assembled or written)
        "late2": {"cells": [(0, 0, 0), (1, 0, 0)], "late": [1]},
    }


def events_for(variant):
    n = len(variants()[variant]["cells"])
    ev = ["W", "A", "C", "B", "M0", "M1", "P", "P2", "P3", "Q", "R"] + [f"D{i}" for i in range(n)]
    if variant == "two":
        ev.append("AS")  # assemble(skip_edges=True)
    if variants()[variant].get("late"):
        ev.append("N")
    return ev


def cases(tier, seed):
    out = []
    depth = {"quick": 4, "thorough": 6}[tier]
    for var in variants():
        evs = events_for(var)
        for e1 in evs:
            if tier == "quick" and "bundle" in variants()[var] and e1[0] not in "DAW":
                continue
            for e2 in evs:
                out.append({"variant": var, "prefix": [e1, e2], "depth": depth})
    for var, script in SCRIPTS:
        out.append({"variant": var, "script": script})
    return out


def bounds(tier):
    return {"history_depth": 4 if tier == "quick" else 6, "events": 12, "models": "2 and 3 boxes in a row with outer patches, an interface patch pair, and corner/edge/side projections declared by the second box on entities it shares with the first"}


# ----------------------------------------------------------------------------
# declaration model
class Model:
    def __init__(self, variant):
        self.cells = variants()[variant]["cells"]
        self.n = len(self.cells)
        self.pts = [np.array([[c[0] + x, c[1] + y * 1.0, c[2] + z] for x, y, z in bm.CORNER_XYZ], dtype=float) for c in self.cells]
        self.patches = []
        for i in range(self.n):
            p = {}
            if i == 0:
                p["left"] = "inlet"
            if i == self.n - 1:
                p["right"] = "outlet"
            if i == 0:
                p["right"] = "mid_a"
            if i == 1:
                p["left"] = "mid_b"
            p["top"] = "lid"
            self.patches.append(p)
        # projections declared on the second box only, all on entities it shares with the first one (its corner 0 is
        # the first box's corner 1, its edge 0-3 the first box's 1-2, its left side the first box's right side)
        self.proj = [[] for _ in range(self.n)]
        self.proj[1] = [("corner", 0, "terrain"), ("edge", 0, 3, "terrain"), ("side", "left", "terrain")]
        # ... and a projected side of their own on every box (several entries in the faces section, one per block)
        for i in range(self.n):
            self.proj[i] = self.proj[i] + [("side", "bottom", "terrain" if i % 2 else "floor")]
        self.deleted = set()
        self.added = [i for i in range(self.n) if i not in variants()[variant].get("late", [])]
        self.late = list(variants()[variant].get("late", []))
        self.assembled = False
        self.skip_edges = False  # argument of the assemble() call in force (kept by backport)
        self.assembled_ops = []  # operations the assembly in force was made from
        self.moves = []  # pending (op, corner, delta) on assembled vertices
        self.mods = []  # (event, phase) phase: "pre" if before the assembly currently in force
        self.merges_in_force = []  # merges known at the assembly in force

    def enabled(self, ev):
        if ev in ("A", "AS"):
            return True
        if ev == "W":
            return True
        if ev in ("M0", "M1"):
            return self.assembled
        if ev in ("B", "C"):
            return self.assembled
        if ev == "N":
            return bool(self.late)
        if ev[0] == "D":
            i = int(ev[1:])
            live = [o for o in self.added if o not in self.deleted]
            return i in live and len(live) >= 2
        return True

    def slave_names(self, merges):
        return {"mid_b"} if merges else set()

    def owners(self, op, corner, merges):
        """(op, corner) pairs referring to the same vertex as (op, corner) under the merges in force"""
        slaves = self.slave_names(merges)

        def key(o, c):
            at = {name for side, name in self.patches[o].items() if c in bm.FACES[_side(side)]}
            return (tuple(np.round(self.cur_pos(o, c), 6)), frozenset(at & slaves))

        k0 = key(op, corner)
        return [(o, c) for o in self.assembled_ops for c in range(8) if key(o, c) == k0]

    def cur_pos(self, o, c):
        return self.pts[o][c]

    def _assemble(self):
        self.assembled = True
        self.assembled_ops = [i for i in self.added if i not in self.deleted]
        self.mods = [(m, "pre") for m, _ in self.mods]
        self.merges_in_force = [m for m, _ in self.mods if m == "R"]
        self.moves = []

    def apply(self, ev):
        if ev in ("A", "AS"):
            # (on an assembled mesh: starts over from the depot, like clear() + assemble(); moved vertices are dropped)
            self.skip_edges = ev == "AS"
            self._assemble()
        elif ev == "W":
            if not self.assembled:
                self.skip_edges = False
                self._assemble()
        elif ev == "C":
            self.assembled = False
            self.moves = []
        elif ev in MOVES:
            corner, delta = MOVES[ev]
            op = self.assembled_ops[0]
            self.moves.append((op, corner, delta))
        elif ev == "B":
            self._backport()
        elif ev == "N":
            self.added.append(self.late.pop(0))
            if self.assembled:
                self._backport()
        elif ev[0] == "D":
            self.deleted.add(int(ev[1:]))
            if self.assembled:
                # a deletion (like an addition or a merge) on an assembled mesh takes effect at once: the mesh is
                # assembled again with its vertices where they are
                self._backport()
        else:
            self.mods.append((ev, "post" if self.assembled else "pre"))
            if ev == "R" and self.assembled:
                self._backport()

    def _backport(self):
        # every operation corner that refers to the moved vertex follows it
        for op, corner, delta in self.moves:
            for o, c in self.owners(op, corner, self.merges_in_force):
                self.pts[o][c] = self.pts[o][c] + np.array(delta)
        self._assemble()


def _side(s):
    return s


def make_ops(model_pts, patches, projections=None):
    import classy_blocks as cb

    ops = []
    for k, (pts, pat) in enumerate(zip(model_pts, patches)):
        loft = cb.Loft(cb.Face(pts[:4]), cb.Face(pts[4:]))
        for side, name in pat.items():
            loft.set_patch(side, name)
        for pr in projections[k] if projections else []:
            if pr[0] == "corner":
                loft.project_corner(pr[1], pr[2])
            elif pr[0] == "edge":
                loft.project_edge(pr[1], pr[2], pr[3])
            else:
                loft.project_side(pr[1], pr[2])
        for a, cnt in enumerate((2, 3, 4)):
            loft.chop(a, count=cnt)
        ops.append(loft)
    return ops


def add_entities(mesh, ops, bundle):
    """ops either directly or grouped into Shapes"""
    import classy_blocks as cb

    if not bundle:
        for op in ops:
            mesh.add(op)
        return

    class Bundle(cb.Shape):
        def __init__(self, members):
            self._ops = members

        @property
        def operations(self):
            return self._ops

        @property
        def grid(self):
            return [self._ops]

    for group in bundle:
        if len(group) == 1:
            mesh.add(ops[group[0]])
        else:
            mesh.add(Bundle([ops[i] for i in group]))


def do_mod(mesh, ev):
    if ev == "P":
        mesh.modify_patch("inlet", "wall", ["inGroups (a b)", "value 3"])
    elif ev == "P2":
        # settings only, the type stays the plain 'patch'
        mesh.modify_patch("outlet", "patch", ["inGroups (a b)"])
    elif ev == "P3":
        # a patch declared through the mesh only: plain type, no settings, no sides
        mesh.modify_patch("baffle", "patch")
    elif ev == "Q":
        mesh.set_default_patch("rest", "wall")
    elif ev == "R":
        mesh.merge_patches("mid_a", "mid_b")


def find_vertex(mesh, live_ops, op, corner):
    blk = mesh.blocks[live_ops.index(op)]
    return blk.vertices[corner]


def scratch(name):
    return os.path.join(runner.scratch_dir(), f"c12_{os.getpid()}_{name}")


def replay(variant, history):
    """execute history on a fresh real mesh; returns (mesh, ops, model, list of (position in history, text | exception name))"""
    import classy_blocks as cb

    model = Model(variant)
    mesh = cb.Mesh()
    mesh.add_geometry(GEOMETRY)
    ops = make_ops(model.pts, model.patches, model.proj)
    if model.late:
        for i in model.added:
            mesh.add(ops[i])
    else:
        add_entities(mesh, ops, variants()[variant].get("bundle"))
    writes = []
    for k, ev in enumerate(history):
        live = [i for i in range(model.n) if i not in model.deleted]
        # the set of live ops the *current assembly* was made from
        try:
            if ev == "W":
                p = scratch("w")
                mesh.write(p)
                writes.append((k, open(p).read()))
            elif ev == "A":
                mesh.assemble()
            elif ev == "AS":
                mesh.assemble(skip_edges=True)
            elif ev == "C":
                mesh.clear()
            elif ev == "B":
                mesh.backport()
            elif ev in MOVES:
                corner, delta = MOVES[ev]
                op = model.assembled_ops[0]
                v = find_vertex(mesh, model.assembled_ops, op, corner)
                v.move_to(v.position + np.array(delta))
            elif ev == "N":
                mesh.add(ops[model.late[0]])
            elif ev[0] == "D":
                mesh.delete(ops[int(ev[1:])])
            else:
                do_mod(mesh, ev)
        except Exception as err:
            writes.append((k, f"EXC:{type(err).__name__}:{str(err)[:80]}"))
            model.apply(ev)
            return mesh, ops, model, writes, True
        model.apply(ev)
    return mesh, ops, model, writes, False


def reference_text(variant, history_upto):
    """file a freshly built mesh of the normal form writes"""
    import classy_blocks as cb

    model = Model(variant)
    for ev in history_upto:
        model.apply(ev)
    live = [i for i in model.added if i not in model.deleted]
    mesh = cb.Mesh()
    mesh.add_geometry(GEOMETRY)
    ops = make_ops([model.pts[i] for i in live], [model.patches[i] for i in live], [model.proj[i] for i in live])
    for op in ops:
        mesh.add(op)
    for ev, phase in model.mods:
        if phase == "pre":
            do_mod(mesh, ev)
    mesh.assemble(skip_edges=model.skip_edges)
    for op, corner, delta in model.moves:
        v = find_vertex(mesh, live, op, corner)
        v.move_to(v.position + np.array(delta))
    for ev, phase in model.mods:
        if phase == "post":
            do_mod(mesh, ev)
    p = scratch("ref")
    mesh.write(p)
    return open(p).read()


# the surfaces the models project to, declared through the mesh (not re-supplied by any entity)
GEOMETRY = {
    "terrain": ["type searchablePlane", "planeType pointAndNormal", "point (0 0 0)", "normal (0 0 1)"],
    "floor": ["type searchableSphere", "centre (0 0 -50)", "radius 50"],
}


def content(text):
    d = foamdict.parse(text)
    boundary = {p["name"]: (p["type"], tuple(p["settings"]), tuple(sorted(tuple(q) for q in p["faces"]))) for p in d["boundary"]}
    return {
        "vertices": [(tuple(round(x, 7) for x in v["pos"]), tuple(v["project"])) for v in d["vertices"]],
        "blocks": [(tuple(b["v"]), b["zone"], tuple(b["counts"]), b["kind"], repr(b["grading"])) for b in d["blocks"]],
        "edges": repr(d["edges"]),
        "faces": repr(d["faces"]),
        "boundary": boundary,
        "default": d["defaultPatch"],
        "merge": d["mergePatchPairs"],
        "settings": d["settings"],
        "geometry": repr(sorted(d["geometry"].items())),
    }


def impl_key(mesh, ops, model):
    key = []
    key.append(tuple(tuple(np.round(op.point_array, 7).ravel()) for op in ops))
    key.append(tuple(sorted(ops.index(o) for o in mesh.deleted)))
    key.append(tuple((v.index, tuple(np.round(v.position, 7))) for v in mesh.vertex_list.vertices))
    key.append(tuple(tuple(b.indexes) for b in mesh.blocks))
    pl = mesh.patch_list
    key.append(tuple((n, p.kind, tuple(p.settings), tuple(s.description for s in p.sides)) for n, p in pl.patches.items()))
    key.append(tuple(sorted(pl.default.items())))
    key.append(tuple(tuple(m) for m in pl.merged))
    spec = []
    for b in mesh.blocks:
        for ax in b.axes:
            spec.append((len(ax.wires.chops), tuple(len(w.grading.specification) for w in ax.wires)))
    key.append(tuple(spec))
    key.append(len(mesh.edge_list.edges))
    key.append(len(mesh.face_list.faces))
    key.append(len(mesh.vertex_list.duplicated))
    # model part that later events read
    key.append((model.assembled, tuple(model.moves), tuple(model.mods), tuple(model.added), model.skip_edges))
    return tuple(key)


def check_history(variant, hist):
    """replay, evaluate the oracle for the LAST event if it is a write; returns (key, violations, halted)"""
    mesh, ops, model, writes, halted = replay(variant, hist)
    violations = []
    k = len(hist) - 1
    last = [w for w in writes if w[0] == k]
    coords = {"variant": variant, "history": hist}
    ev = hist[-1]
    if last and isinstance(last[0][1], str) and last[0][1].startswith("EXC:"):
        violations.append({"clause": f"{_name(ev)}-raised", "coords": coords, "detail": last[0][1]})
    elif ev == "W" and last:
        text = last[0][1]
        try:
            ref = reference_text(variant, hist)
        except Exception as err:
            raise AssertionError(f"reference build failed for {hist}: {type(err).__name__}: {err}") from err
        if text != ref:
            a, b = content(text), content(ref)
            diff = [sec for sec in a if a[sec] != b[sec]]
            if diff:
                violations.append(
                    {
                        "clause": "written-file-differs-from-fresh-equivalent",
                        "coords": coords,
                        "detail": {"sections": diff, "got": str(a[diff[0]])[:300], "fresh": str(b[diff[0]])[:300]},
                    }
                )
    return impl_key(mesh, ops, model), violations, halted, model


def _name(ev):
    return {"W": "write", "A": "assemble", "C": "clear", "B": "backport", "P": "modify_patch", "P2": "modify_patch", "P3": "modify_patch", "Q": "set_default_patch", "R": "merge_patches", "N": "add", "AS": "assemble"}.get(ev, "move" if ev[0] == "M" else "delete")


# single histories beyond the depth of the search: the depot is changed while the mesh is cleared, then assembled,
# a vertex moved and back-ported (each is checked after every event, the oracle at its writes)
SCRIPTS = [
    ("two", ["A", "C", "D0", "A", "M0", "B", "W"]),
    ("two", ["W", "C", "D1", "W", "M0", "B", "W"]),
    ("two", ["A", "C", "D0", "W", "B", "W", "C", "W"]),
    ("three", ["A", "C", "D1", "A", "M0", "B", "W"]),
    ("three", ["W", "C", "D0", "W", "M1", "B", "W", "W"]),
    ("mixed3", ["A", "C", "D0", "A", "M0", "B", "W"]),
    ("late2", ["A", "C", "N", "W", "B", "W"]),
    ("late2", ["W", "C", "N", "W", "M0", "B", "W"]),
    ("late2", ["A", "N", "C", "D0", "W", "B", "W"]),
]


def run_script(case):
    variant, script = case["variant"], case["script"]
    violations = []
    m = Model(variant)
    hist = []
    for ev in script:
        if not m.enabled(ev):
            raise AssertionError(f"scripted history {script}: {ev} is not enabled after {hist}")
        hist.append(ev)
        _, v, halted, m = check_history(variant, hist)
        violations += v
        if halted:
            break
    return {"violations": violations, "outcome": "script", "nontrivial": True, "execs": len(hist), "states": len(hist), "transitions": len(hist)}


def run_case(case):
    if "script" in case:
        return run_script(case)
    variant = case["variant"]
    evs = events_for(variant)
    depth = case["depth"]
    prefix = case["prefix"]
    violations = []
    # the prefix must be enabled step by step
    m = Model(variant)
    hist = []
    transitions = 0
    seen = set()
    for ev in prefix:
        if not m.enabled(ev):
            return {"violations": [], "outcome": "prefix-disabled", "nontrivial": False, "execs": 0, "states": 1, "transitions": 1}
        hist.append(ev)
        key, v, halted, m = check_history(variant, hist)
        transitions += 1
        violations += v
        seen.add(key)
        if halted:
            return {"violations": violations, "outcome": "halted", "nontrivial": True, "execs": transitions, "states": len(seen), "transitions": transitions}
    frontier = collections.deque([list(hist)])
    writes_checked = 0
    while frontier:
        h = frontier.popleft()
        if len(h) >= depth:
            continue
        model = Model(variant)
        for ev in h:
            model.apply(ev)
        for ev in evs:
            if not model.enabled(ev):
                continue
            nh = h + [ev]
            key, v, halted, _ = check_history(variant, nh)
            transitions += 1
            if ev == "W":
                writes_checked += 1
            violations += v
            if halted:
                continue
            if key not in seen:
                seen.add(key)
                frontier.append(nh)
    return {
        "violations": violations,
        "outcome": f"depth{depth}",
        "nontrivial": True,
        "execs": transitions,
        "states": len(seen),
        "transitions": transitions,
        "counters": {"write_transitions_checked": writes_checked},
    }
