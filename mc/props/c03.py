"""C03 - cell count and expansion obey the geometric-progression law (finite lattice)."""

from __future__ import annotations

import itertools
import math

from mc import blockmesh_ref as bm
from mc.domains import lin, logspace

ID = "C03"
LEVEL = "exploration"
DESIGN_REF = "DESIGN.md 5 C03"
RULE = (
    "case = (parameter pair, edge length); inside, the full product of the two value lattices is evaluated with "
    "Chop.calculate on the real library (and inverted, and as 1-3 section gradings). Lattices = regular grids united "
    "with two-sided neighbourhoods of every branch constant (ratio 1 +- {1e-9, 9e-8, 1.1e-7, 1e-6, 1e-4}, exact-integer "
    "solutions 1/n*(1 +- {0, 1e-12, 1e-9})). non-trivial = a distinct (pair, length, v1, v2) point whose reference "
    "classification is must-accept or must-reject (not 'may')"
)
ASSUMPTIONS = [
    "tolerance eps(n) = 1e-6 + 2 n TOL with the library's documented TOL = 1e-7 (a ratio within TOL of 1 is treated as 1)",
    "must-accept only for reference solutions with n <= 200 and 1e-6 <= T <= 1e6; any exception type counts as rejection",
    "lattice, not continuum",
]

TOL = 1e-7
PARAMS = ["count", "start_size", "end_size", "c2c_expansion", "total_expansion"]
PAIRS = list(itertools.combinations(PARAMS, 2))

LENGTHS_T = [1e-3, 3.7e-3, 0.01, 0.05, 0.1, 0.33, 1.0, 2.5, 7.0, 10.0, 64.0, 100.0, 1000.0]
LENGTHS_Q = [1e-3, 0.1, 1.0, 7.0, 1000.0]
NS = [1, 2, 3, 4, 5, 7, 10, 50, 100, 200]


def eps(n):
    return 1e-6 + 2 * n * TOL


def lattice(param, tier):
    q = tier == "quick"
    if param == "count":
        return list(range(1, 201)) if not q else [1, 2, 3, 4, 5, 6, 7, 8, 10, 13, 20, 37, 50, 99, 100, 150, 199, 200]
    if param == "c2c_expansion":
        grid = lin(0.5, 2.0, 7 if q else 16)
        near = []
        for d in (1e-9, 9e-8, 1.1e-7, 1e-6, 1e-4):
            near += [1 - d, 1 + d]
        return sorted(set(grid + near + [1.0, 0.8, 0.9, 1.05, 1.1, 1.2, 1.5]))
    if param in ("start_size", "end_size"):  # as fraction of the length
        grid = logspace(1e-4, 1.0, 9 if q else 25)
        exact = []
        for n in NS:
            for m in (1.0, 1 - 1e-12, 1 + 1e-12, 1 - 1e-9, 1 + 1e-9, 1 - 3e-5, 1 + 3e-5, 1 - 1e-3, 1 + 1e-3):
                exact.append(m / n)
        if q:
            exact = [m / n for n in (1, 2, 3, 10, 100) for m in (1.0, 1 - 1e-12, 1 + 1e-12, 1 - 1e-9, 1 + 1e-9, 1 - 3e-5, 1 + 3e-5, 1 - 1e-3, 1 + 1e-3)]
        return sorted(set(grid + exact + [0.3, 0.07, 0.6, 1.5]))
    if param == "total_expansion":
        grid = logspace(1e-3, 1e3, 7 if q else 19)
        exact = [r ** (n - 1) for r in (0.8, 0.9, 1.1, 1.2, 1.5) for n in ((3, 10) if q else (2, 3, 5, 10, 20))]
        near = []
        for d in (1e-9, 9e-8, 1.1e-7, 1e-6, 1e-4):
            near += [1 - d, 1 + d]
        return sorted(set(grid + exact + near + [1.0]))
    raise AssertionError(param)


def cases(tier, seed):
    out = []
    lengths = LENGTHS_Q if tier == "quick" else LENGTHS_T
    if tier == "quick":
        lengths = sorted(set(lengths + [LENGTHS_T[seed % len(LENGTHS_T)]]))
    for pair in PAIRS:
        for ell in lengths:
            out.append({"pair": list(pair), "length": ell, "tier": tier})
    for ell in lengths:
        out.append({"pair": ["multi"], "length": ell, "tier": tier})
    return out


# ----------------------------------------------------------------------------
# reference model
def gp_first(length, n, r):
    if n == 1:
        return length
    if abs(r - 1) < 1e-13:
        return length / n
    return length * (1 - r) / (1 - r**n)


def sizes_nT(length, n, T):
    """(first, last) under blockMesh's progression for n cells and total expansion T"""
    if n == 1:
        return length, length
    r = T ** (1.0 / (n - 1))
    f = gp_first(length, n, r)
    return f, f * T


def real_count_start_r(length, s, r):
    """real-valued n with s (1-r^n)/(1-r) = length; None if unrealisable"""
    if abs(r - 1) < 1e-13:
        return length / s
    arg = 1 - length / s * (1 - r)
    if arg <= 0:
        return None
    return math.log(arg) / math.log(r)


def classify(pair, length, v1, v2):
    """-> 'accept' | 'reject' | 'may' from the mathematics alone"""
    d = dict(zip(pair, (v1, v2)))
    n = d.get("count")
    s = d.get("start_size")
    e = d.get("end_size")
    r = d.get("c2c_expansion")
    T = d.get("total_expansion")
    L = length
    m = 1e-6

    def t_ok(t):
        return 1e-6 * (1 + 1e-3) <= t <= 1e6 * (1 - 1e-3)

    if n is not None and r is not None:
        return "accept" if t_ok(r ** (n - 1)) else "may"
    if n is not None and T is not None:
        if n == 1:
            return "may"  # total expansion of a single cell is meaningless
        return "accept" if t_ok(T) else "may"
    if n is not None and (s is not None or e is not None):
        z = s if s is not None else e
        if n == 1:
            return "may" if abs(z - L) <= m * L else "reject-count1"
        if z >= L * (1 + m):
            return "reject"
        if z > L * (1 - m) or z * n > L * 1e3:
            return "may"
        # realisable for any z < L; expansion implied: check T range through the reference solve
        T_ref = ref_T_from_count_size(L, n, z)
        if T_ref is None or not t_ok(T_ref):
            return "may"
        return "accept"
    if (s is not None or e is not None) and r is not None:
        z, rr = (s, r) if s is not None else (e, 1.0 / r)
        # z is the first cell of a progression with ratio rr
        if abs(rr - 1) <= 3 * TOL and abs(rr - 1) > 0:
            band = True
        else:
            band = False
        if z > L * (1 + m):
            return "may"  # a single cell larger than the edge: the library may clip to one cell
        if rr < 1 and z < L * (1 - rr) * (1 - m):
            return "reject"
        nstar = real_count_start_r(L, z, rr)
        if nstar is None or nstar > 200 or band:
            return "may"
        if rr < 1 and z < L * (1 - rr) * (1 + 1e-3):
            return "may"
        nn = math.ceil(nstar - 1e-9)
        if not t_ok(rr ** (max(nn, 1))):
            return "may"
        return "accept"
    if s is not None and e is not None:
        # the pair is honoured as (first cell, total expansion = e/s) with the count rounded up, so it is
        # realisable in the statement's sense whenever the first cell fits; two cells that do not fit
        # exactly are left to the accepted-result clauses ("may")
        if s + e > L * (1 - m):
            return "may"
        if not t_ok(e / s):
            return "may"
        if L / min(s, e) > 200:
            return "may"
        return "accept"
    if (s is not None or e is not None) and T is not None:
        z = s if s is not None else e / T
        zl = z * T  # last
        if not t_ok(T):
            return "may"
        if z + zl > L * (1 + m) and not (abs(z - L) <= m * L and abs(T - 1) < m):
            return "may"  # one or two cells that do not fit: statement does not fix this corner
        if z + zl > L * (1 - m):
            return "may"
        if L / min(z, zl) > 200:
            return "may"
        return "accept"
    if r is not None and T is not None:
        if abs(r - 1) <= 3 * TOL:
            return "may"
        if abs(math.log(T)) < 1e-6:
            return "may"
        q = math.log(T) / math.log(r)
        if q < -1 - 1e-9:
            return "reject"  # no n >= 1 with |n-1 - log T/log r| < 1
        if q < 1e-6:
            return "may"  # a single cell, whose expansion is immaterial
        if q > 199 or not t_ok(T):
            return "may"
        return "accept"
    raise AssertionError(pair)


def ref_T_from_count_size(L, n, first):
    """total expansion such that n cells starting with `first` fill L (bisection on log r)"""
    if n == 1:
        return 1.0
    target = L / first

    def f(lr):
        r = math.exp(lr)
        if abs(r - 1) < 1e-14:
            return n - target
        return (1 - r**n) / (1 - r) - target

    lo, hi = -20.0, 20.0
    try:
        if f(lo) * f(hi) > 0:
            return None
    except OverflowError:
        return None
    for _ in range(200):
        mid = (lo + hi) / 2
        try:
            fm = f(mid)
        except OverflowError:
            hi = mid
            continue
        if fm > 0:
            hi = mid
        else:
            lo = mid
    return math.exp((lo + hi) / 2 * (n - 1))


def check_accepted(pair, L, v1, v2, count, T):
    """clauses violated by an accepted result"""
    d = dict(zip(pair, (v1, v2)))
    bad = []
    if isinstance(count, bool) or not isinstance(count, int) or count < 1:
        try:
            ok = float(count) == int(count) and int(count) >= 1 and not isinstance(count, float)
        except Exception:
            ok = False
        if not ok:
            return [("count-not-positive-int", f"count={count!r}")]
    try:
        Tf = float(T)
    except Exception:
        return [("expansion-not-finite-positive", f"T={T!r}")]
    if not (math.isfinite(Tf) and Tf > 0):
        return [("expansion-not-finite-positive", f"T={T!r}")]
    n = int(count)
    e_n = eps(n)
    first, last = sizes_nT(L, n, Tf)
    if "count" in d:
        if n != d["count"]:
            bad.append(("given-count-changed", f"given {d['count']}, got {n}"))
        if "c2c_expansion" in d and not math.isclose(Tf, d["c2c_expansion"] ** (n - 1), rel_tol=1e-9):
            bad.append(("given-c2c-not-reproduced", f"T={Tf}, r^(n-1)={d['c2c_expansion'] ** (n - 1)}"))
        if "total_expansion" in d and n > 1 and not math.isclose(Tf, d["total_expansion"], rel_tol=1e-12):
            bad.append(("given-total-expansion-changed", f"T={Tf}"))
        if "start_size" in d and n > 1 and not math.isclose(first, d["start_size"], rel_tol=1e-6):
            bad.append(("given-start-size-not-reproduced", f"first cell {first} vs {d['start_size']}"))
        if "end_size" in d and n > 1 and not math.isclose(last, d["end_size"], rel_tol=1e-6):
            bad.append(("given-end-size-not-reproduced", f"last cell {last} vs {d['end_size']}"))
        return bad
    if "c2c_expansion" in d and "total_expansion" in d:
        if not math.isclose(Tf, d["total_expansion"], rel_tol=1e-12):
            bad.append(("given-total-expansion-changed", f"T={Tf}"))
        q = math.log(d["total_expansion"]) / math.log(d["c2c_expansion"])
        if not abs((n - 1) - q) < 1 + 1e-9:
            bad.append(("count-not-nearest-to-logT/logr", f"n-1={n - 1}, log T/log r={q}"))
        elif abs(q - round(q)) < 1e-9 and round(q) >= 1 and n - 1 != round(q):
            # the two ratios fit a whole number of cells: that count reproduces both
            bad.append(("exact-fit-count-off-by-one", f"total expansion = ratio^{round(q)} exactly ({round(q) + 1} cells reproduce both ratios), the result has {n} cells"))
        return bad
    if "c2c_expansion" in d:
        r = d["c2c_expansion"]
        if abs(r - 1) <= TOL:
            r_eff_ok = math.isclose(Tf, 1.0, rel_tol=2 * n * TOL) or math.isclose(Tf, r ** (n - 1), rel_tol=1e-9)
        else:
            r_eff_ok = math.isclose(Tf, r ** (n - 1), rel_tol=1e-9)
        if not r_eff_ok:
            bad.append(("given-c2c-not-reproduced", f"T={Tf}, r^(n-1)={r ** (n - 1)}"))
        if "start_size" in d:
            want = d["start_size"]
            got = first
            fewer = gp_first(L, n - 1, r) if n >= 2 else None
        else:
            want = d["end_size"]
            got = last
            fewer = gp_first(L, n - 1, 1.0 / r) if n >= 2 else None
        if want <= L * (1 + 1e-6):
            if got > want * (1 + e_n):
                bad.append(("coarser-than-requested", f"n={n}: cell {got} > requested {want}"))
            if fewer is not None and fewer < want * (1 - e_n):
                bad.append(("more-cells-than-needed", f"n-1={n - 1} cells would already give {fewer} <= requested {want}"))
            elif fewer is not None and n >= 3 and abs(fewer - want) <= 1e-12 * want:
                # the requested size fits the edge exactly n-1 times: one cell fewer is not coarser than requested
                bad.append(("exact-fit-one-cell-too-many", f"{n - 1} cells of exactly the requested size {want} fill the edge; the result has {n}"))
        return bad
    # total expansion is kept (given, or end/start)
    Tgiven = d.get("total_expansion", None)
    if Tgiven is None:
        Tgiven = d["end_size"] / d["start_size"]
    if not math.isclose(Tf, Tgiven, rel_tol=1e-9):
        bad.append(("given-total-expansion-changed", f"T={Tf} vs {Tgiven}"))
        return bad
    if "start_size" in d:
        want, got = d["start_size"], first
        fewer = sizes_nT(L, n - 1, Tf)[0] if n >= 2 else None
    else:
        want, got = d["end_size"], last
        fewer = sizes_nT(L, n - 1, Tf)[1] if n >= 2 else None
    if got > want * (1 + e_n):
        bad.append(("coarser-than-requested", f"n={n}: cell {got} > requested {want}"))
    if fewer is not None and fewer < want * (1 - e_n):
        bad.append(("more-cells-than-needed", f"n-1={n - 1} cells would already give {fewer} <= requested {want}"))
    elif fewer is not None and n >= 3 and (Tgiven == 1.0 or abs(Tgiven - 1.0) > 1e-6):
        # (judged with the GIVEN total expansion, and not in the band around 1 where ratios are snapped to 1: cells that
        # differ by 1e-9 do not fill the edge exactly)
        fewer_given = sizes_nT(L, n - 1, Tgiven)[0 if "start_size" in d else 1]
        if abs(fewer_given - want) <= 1e-12 * want:
            bad.append(("exact-fit-one-cell-too-many", f"{n - 1} cells of exactly the requested size {want} fill the edge; the result has {n}"))
    return bad


# ----------------------------------------------------------------------------
def values(param, L, tier):
    vals = lattice(param, tier)
    if param in ("start_size", "end_size"):
        return [L * f for f in vals]
    return vals


def run_case(case):
    from classy_blocks.grading.chop import Chop
    from classy_blocks.grading.grading import Grading

    L = case["length"]
    tier = case["tier"]
    violations = []
    outcomes = {}
    execs = 0
    nontrivial = 0

    def note(o):
        outcomes[o] = outcomes.get(o, 0) + 1

    if case["pair"] == ["multi"]:
        ratios = [0.2, 0.3, 0.5, 0.7, 0.8]
        seqs = [[1.0]] + [list(c) for k in (2, 3) for c in itertools.product(ratios, repeat=k) if abs(sum(c) - 1) < 1e-12]
        kinds = [{"count": 4, "c2c_expansion": 1.2}, {"start_size_f": 0.07, "c2c_expansion": 1.1}, {"count": 3}, {"end_size_f": 0.11, "count": 5}]
        for seq in seqs:
            for ks in itertools.product(range(len(kinds)), repeat=len(seq)):
                g = Grading(L)
                want = []
                ok = True
                for lr, ki in zip(seq, ks):
                    kw = {}
                    for k, v in kinds[ki].items():
                        if k.endswith("_f"):
                            kw[k[:-2]] = v * L * lr
                        else:
                            kw[k] = v
                    try:
                        g.add_chop(Chop(length_ratio=lr, **kw))
                        ref = Chop(**kw).calculate(L * lr)
                        want.append((lr, int(ref[0]), float(ref[1])))
                    except Exception:
                        ok = False
                        break
                execs += 1
                if not ok:
                    note("multi:rejected")
                    violations.append({"clause": "multi-section-rejected", "coords": {"length": L, "ratios": seq, "kinds": list(ks)}, "detail": "a realisable multi-section grading raised"})
                    continue
                nontrivial += 1
                note("multi:ok")
                spec = [(float(a), int(b), float(c)) for a, b, c in g.specification]
                coords = {"length": L, "ratios": seq, "kinds": list(ks)}
                if len(spec) != len(want) or any(not (math.isclose(x[0], y[0]) and x[1] == y[1] and math.isclose(x[2], y[2], rel_tol=1e-12)) for x, y in zip(spec, want)):
                    violations.append({"clause": "multi-section-spec", "coords": coords, "detail": f"specification {spec} vs per-section calculation {want}"})
                if g.count != sum(w[1] for w in want):
                    violations.append({"clause": "multi-section-count", "coords": coords, "detail": f"{g.count}"})
                inv = g.inverted.specification
                exp_inv = [(w[0], w[1], 1 / w[2]) for w in reversed(want)]
                if len(inv) != len(exp_inv) or any(not (math.isclose(x[0], y[0]) and x[1] == y[1] and math.isclose(x[2], y[2], rel_tol=1e-9)) for x, y in zip(inv, exp_inv)):
                    violations.append({"clause": "inverted-grading", "coords": coords, "detail": f"{inv} vs {exp_inv}"})
                if g.inverted is g or g.specification != [list(s) for s in g.specification]:
                    pass
                spec_after = [(float(a), int(b), float(c)) for a, b, c in g.specification]
                if spec_after != spec:
                    violations.append({"clause": "inverted-mutates-original", "coords": coords, "detail": f"{spec_after}"})
        return {"violations": violations, "outcomes": outcomes, "execs": execs, "nontrivial_n": nontrivial, "states": 1, "transitions": execs}

    pair = tuple(case["pair"])
    for v1 in values(pair[0], L, tier):
        for v2 in values(pair[1], L, tier):
            execs += 1
            cls = classify(pair, L, v1, v2)
            coords = {"pair": list(pair), "length": L, "v1": v1, "v2": v2}
            kw = {pair[0]: v1, pair[1]: v2}
            try:
                count, T = Chop(**kw).calculate(L)
                accepted = True
            except Exception as err:
                accepted = False
                exc = type(err).__name__
            if cls != "may":
                nontrivial += 1
            if not accepted:
                note(f"{cls}:rejected")
                if cls == "accept":
                    violations.append({"clause": "realisable-rejected", "coords": coords, "detail": f"raised {exc}"})
                continue
            note(f"{cls}:accepted")
            if cls == "reject":
                violations.append({"clause": "unrealisable-accepted", "coords": coords, "detail": f"returned count={count}, T={T}"})
                continue
            if cls == "reject-count1":
                violations.append({"clause": "count1-size-mismatch-accepted", "coords": coords, "detail": f"one cell of size {v2} on an edge of length {L}: returned count={count}, T={T}"})
                continue
            for clause, detail in check_accepted(pair, L, v1, v2, count, T):
                violations.append({"clause": clause, "coords": coords, "detail": detail})
            # re-use of one Chop object on another edge length must equal a fresh calculation (no stale results)
            if execs % 7 == 0:
                L2 = L * 1.37
                try:
                    ch = Chop(**kw)
                    ch.calculate(L)
                    again = ch.calculate(L2)
                except Exception:
                    again = "raised"
                try:
                    fresh = Chop(**kw).calculate(L2)
                except Exception:
                    fresh = "raised"
                if again != fresh and not (again != "raised" and fresh != "raised" and int(again[0]) == int(fresh[0]) and math.isclose(float(again[1]), float(fresh[1]), rel_tol=1e-12)):
                    violations.append({"clause": "chop-object-reuse-differs", "coords": coords, "detail": f"second calculate() on length {L2}: {again}, fresh chop: {fresh}"})
            # inversion: same count, reciprocal expansion (count compared away from exact-integer solutions)
            try:
                ch = Chop(**kw)
                ch.invert()
                c2, T2 = ch.calculate(L)
                # expansions that come out of scipy's brentq carry its documented absolute tolerance
                # (xtol = 2e-12 on the cell-to-cell ratio): dT/T = (n-1) dr/r
                nn = max(int(count), 2)
                rr = float(T) ** (1.0 / (nn - 1))
                tol_rec = 1e-9 + (nn - 1) * 1e-11 / min(rr, 1.0 / rr)
                if not math.isclose(float(T2) * float(T), 1.0, rel_tol=tol_rec) and int(c2) == int(count):
                    violations.append({"clause": "inverted-expansion-not-reciprocal", "coords": coords, "detail": f"T={T}, inverted T={T2}"})
                if int(c2) != int(count) and cls == "accept" and not near_integer_solution(pair, L, v1, v2):
                    violations.append({"clause": "inverted-count-differs", "coords": coords, "detail": f"count={count}, inverted count={c2}"})
            except Exception as err:
                if cls == "accept":
                    violations.append({"clause": "inverted-rejected", "coords": coords, "detail": f"{type(err).__name__}"})
    return {"violations": violations, "outcomes": outcomes, "execs": execs, "nontrivial_n": nontrivial, "states": 1, "transitions": execs}


def near_integer_solution(pair, L, v1, v2):
    d = dict(zip(pair, (v1, v2)))
    if "count" in d:
        return False
    s, e, r, T = d.get("start_size"), d.get("end_size"), d.get("c2c_expansion"), d.get("total_expansion")
    try:
        if r is not None and T is not None:
            q = math.log(T) / math.log(r)
        elif r is not None:
            q = real_count_start_r(L, s, r) if s is not None else real_count_start_r(L, e, 1 / r)
        else:
            return True  # brentq-based count: compared only through the size clauses
        if q is None:
            return True
        return abs(q - round(q)) < 1e-6 * max(1, abs(q))
    except Exception:
        return True


def render_replay(case, v):
    co = v["coords"]
    if "pair" not in co:
        return None
    return f'''from classy_blocks.grading.chop import Chop
kw = {{{co["pair"][0]!r}: {co["v1"]!r}, {co["pair"][1]!r}: {co["v2"]!r}}}
print("length", {co["length"]!r}, kw)
print(Chop(**kw).calculate({co["length"]!r}))   # clause: {v["clause"]}
'''
