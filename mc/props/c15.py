"""C15 - smoothing moves only free interior points, to their neighbours' average."""

from __future__ import annotations

import itertools

import numpy as np

from mc import blockmesh_ref as bm
from mc.domains import FRAMES, frame_apply, jitter_vec

ID = "C15"
LEVEL = "exploration"
DESIGN_REF = "DESIGN.md 5 C15"
RULE = (
    "case = (quad map: structured n x m, the library's OneCore/FourCore/Oval/HalfDisk maps, an irregular map, an L-shaped map (re-entrant boundary corner), star maps "
    "whose interior points have valence n (n = 3,5,6[,7]), 4 and 3; or hex assembly 2x2x2, 3x3x1..3 of boxes, the star "
    "map extruded in two layers (a node of valence n+2), an L of boxes in two storeys (re-entrant boundary edge)) x interior jitter level x frame; inside: "
    "every subset (<=16) of interior points fixed by index and by position x iterations in {1,2,5,50,200}; reference: "
    "adjacency model derived from the index lists alone (boundary = edge/quad owned by one cell, neighbours = cell "
    "edges). non-trivial = a distinct (map, fixed set, iterations) smoothing run"
    " Sketches put together by MappedSketch.merge() (list, pairs, sequence)."
)
ASSUMPTIONS = ["Gauss-Seidel vs Jacobi is not fixed by the statement: only fixed points, invariance and single-free-point exactness are compared"]


SIZES = [1e-4, 1e3]


def structured_quads(n, m):
    pos = [[i, j * 1.2, 0.0] for j in range(m + 1) for i in range(n + 1)]
    quads = []
    for j in range(m):
        for i in range(n):
            a = j * (n + 1) + i
            quads.append([a, a + 1, a + n + 2, a + n + 1])
    return np.array(pos, float), quads


def irregular_quads():
    """a valence-3 point (index 0) surrounded by 3 quads, ringed by 6 more quads; point 3 has valence 5... built by hand"""
    # centre 0; inner ring 1..6 (hexagon); outer ring 7..18
    pos = [[0, 0, 0]]
    for k in range(6):
        a = np.pi / 3 * k
        pos.append([np.cos(a), np.sin(a), 0])
    for k in range(12):
        a = np.pi / 6 * k
        pos.append([2.2 * np.cos(a), 2.2 * np.sin(a), 0])
    quads = [[0, 1, 2, 3], [0, 3, 4, 5], [0, 5, 6, 1]]  # valence 3 at the centre
    # ring: each inner edge (k, k+1) joined to outer points
    for k in range(6):
        i1, i2 = 1 + k, 1 + (k + 1) % 6
        o1, o2, o3 = 7 + 2 * k, 7 + (2 * k + 1) % 12, 7 + (2 * k + 2) % 12
        quads.append([i1, o1, o2, i2])
        # triangle-like gap between i2 and the next: fill with quad (i2, o2, o3, i2) is degenerate -> use (i2,o2,o3) + next
    # close the gaps: quads (i2, o2, o3, next i2) are already covered by the next ring quad's (i1,o1,..) so add the wedge quads
    quads = quads[:3]
    for k in range(6):
        i1, i2 = 1 + k, 1 + (k + 1) % 6
        o1, o2, o3 = 7 + 2 * k, 7 + (2 * k + 1) % 12, 7 + (2 * k + 2) % 12
        quads.append([i1, o1, o2, o3] if False else [i1, o1, o2, i2])
        quads.append([i2, o2, o3, i2]) if False else None
    # simple, valid alternative: every inner ring point k is connected to outer points 2k-1, 2k, 2k+1
    quads = [[0, 1, 2, 3], [0, 3, 4, 5], [0, 5, 6, 1]]
    for k in range(6):
        i1, i2 = 1 + k, 1 + (k + 1) % 6
        o_a, o_b, o_c = 7 + (2 * k) % 12, 7 + (2 * k + 1) % 12, 7 + (2 * k + 2) % 12
        quads.append([i1, o_a, o_b, i2])
        quads.append([i2, o_b, o_c, i2])
    quads = [q for q in quads if len(set(q)) == 4]
    # the remaining gaps (i2, o_b, o_c) are triangles: merge them into the next quad by making it a pentagon is not
    # possible; instead use outer ring of 6 points only
    pos = pos[:7] + [[2.2 * np.cos(np.pi / 3 * k + np.pi / 6), 2.2 * np.sin(np.pi / 3 * k + np.pi / 6), 0] for k in range(6)]
    quads = [[0, 1, 2, 3], [0, 3, 4, 5], [0, 5, 6, 1]]
    for k in range(6):
        i1, i2 = 1 + k, 1 + (k + 1) % 6
        quads.append([i1, 7 + (k - 1) % 6, 7 + k, i2])
    # inner ring points 1,3,5 now have valence 4 (0, two ring neighbours... ) and 2,4,6 valence 3+... documented by the model
    # the quads [i1, o(k-1), o(k), i2] overlap on o: every outer point is shared by two quads; boundary = outer ring
    return np.array(pos, float), quads


def star_quads(n):
    """n quads around a centre point of valence n (index 0), surrounded by a ring of 2n quads, so that the centre
    (valence n), the n spoke points (valence 4) and the n corner points (valence 3) are all interior"""
    d = 2 * np.pi / n
    pos = [[0.0, 0.0, 0.0]]
    a = lambda k: 1 + k % n  # noqa: E731
    b = lambda k: 1 + n + k % n  # noqa: E731
    A = lambda k: 1 + 2 * n + k % n  # noqa: E731
    B = lambda k: 1 + 3 * n + k % n  # noqa: E731
    pos += [[np.cos(d * k), np.sin(d * k), 0] for k in range(n)]
    pos += [[1.5 * np.cos(d * (k + 0.5)), 1.5 * np.sin(d * (k + 0.5)), 0] for k in range(n)]
    pos += [[2.4 * np.cos(d * k), 2.4 * np.sin(d * k), 0] for k in range(n)]
    pos += [[2.8 * np.cos(d * (k + 0.5)), 2.8 * np.sin(d * (k + 0.5)), 0] for k in range(n)]
    quads = []
    for k in range(n):
        quads.append([0, a(k), b(k), a(k + 1)])
        quads.append([a(k), A(k), B(k), b(k)])
        quads.append([b(k), B(k), A(k + 1), a(k + 1)])
    return np.array(pos, float), quads


def _compress(pos, cells):
    """drop points no cell uses and renumber"""
    used = sorted({i for c in cells for i in c})
    new = {old: k for k, old in enumerate(used)}
    return np.array([pos[i] for i in used], float), [[new[i] for i in c] for c in cells]


def ell_quads():
    """3 x 3 cells with uneven spacing, the upper right cell left out: the re-entrant corner is a boundary point all of
    whose incident cells but one have it in their interior-facing sides"""
    xs, ys = [0.0, 1.0, 2.2, 3.0], [0.0, 0.8, 2.0, 3.0]
    pos = [[x, y, 0.0] for y in ys for x in xs]
    quads = []
    for j in range(3):
        for i in range(3):
            if (i, j) != (2, 2):
                a = j * 4 + i
                quads.append([a, a + 1, a + 5, a + 4])
    return _compress(pos, quads)


def ell_hexes():
    """the L-shaped map (2 x 2 cells minus one) in two storeys: a re-entrant edge with a middle vertex"""
    xs, ys, zs = [0.0, 1.0, 2.1], [0.0, 0.9, 2.0], [0.0, 1.0, 1.8]
    pos = [[x, y, z] for z in zs for y in ys for x in xs]
    cells = []
    for k in range(2):
        for j in range(2):
            for i in range(2):
                if (i, j) != (1, 1):
                    a = k * 9 + j * 3 + i
                    cells.append([a, a + 1, a + 4, a + 3, a + 9, a + 10, a + 13, a + 12])
    return _compress(pos, cells)


def star_hexes(n):
    """the star map extruded in two layers: the centre point of the middle layer has valence n + 2"""
    p2, quads = star_quads(n)
    m = len(p2)
    pos = np.vstack([p2 + [0, 0, z] for z in (0.0, 0.8, 1.7)])
    cells = []
    for layer in (0, 1):
        for q in quads:
            cells.append([i + layer * m for i in q] + [i + (layer + 1) * m for i in q])
    return pos, cells


def hex_assembly(nx, ny, nz):
    pos = {}
    cells = []

    def vid(i, j, k):
        key = (i, j, k)
        if key not in pos:
            pos[key] = len(pos)
        return pos[key]

    for k in range(nz):
        for j in range(ny):
            for i in range(nx):
                cells.append([vid(i + x, j + y, k + z) for x, y, z in bm.CORNER_XYZ])
    P = np.zeros((len(pos), 3))
    for (i, j, k), v in pos.items():
        P[v] = [i, j * 1.1, k * 0.9]
    return P, cells


def adjacency(cells, dim):
    """boundary points and neighbour lists from the index lists alone"""
    neigh = {}
    owners = {}
    for c in cells:
        if dim == 2:
            edges = [(c[i], c[(i + 1) % 4]) for i in range(4)]
            sides = [frozenset(e) for e in edges]
        else:
            edges = [(c[a], c[b]) for a, b in bm.EDGES]
            sides = [frozenset(c[i] for i in cs) for cs in bm.FACES.values()]
        for a, b in edges:
            neigh.setdefault(a, set()).add(b)
            neigh.setdefault(b, set()).add(a)
        for s in sides:
            owners[s] = owners.get(s, 0) + 1
    boundary = set()
    for s, n in owners.items():
        if n == 1:
            boundary |= set(s)
    return boundary, neigh


def cases(tier, seed):
    out = []
    frames = [0, 4] if tier == "quick" else [0, 2, 4, 6]
    maps = ["s2x2", "s3x3", "s4x2", "onecore", "fourcore", "halfdisk", "oval", "irregular", "v3", "v5", "v6", "w5", "L2d", "L3d", "h2x2x2", "h3x3x1", "h3x3x2", "h3x3x3"]
    if tier == "thorough":
        maps += ["s4x4", "s3x2", "v7", "w3", "w7"]
    for mp in maps:
        for fr in frames:
            for jit in (1, 2):
                out.append({"map": mp, "frame": fr, "jitter": jit})
    # sketches put together by MappedSketch.merge(): a list, lists of two, or one sketch at a time
    for mp in ("s2x2", "s3x3", "s4x2", "irregular", "v5", "L2d"):
        for via in ("merge_list", "merge_pairs", "merge_seq"):
            out.append({"map": mp, "frame": frames[0], "jitter": 1, "via": via})
    # model sizes far from 1 (0.1 mm and 1 km): every distance in the model is SIZES times the unit one
    for mp in (["s3x3", "s4x2", "v5", "irregular", "h3x3x2", "L3d"] if tier == "quick" else maps):
        for size in SIZES:
            out.append({"map": mp, "frame": frames[1], "jitter": 1, "size": size})
    return out


def build(case):
    import classy_blocks as cb

    mp, fr = case["map"], case["frame"]
    if mp.startswith("s"):
        n, m = int(mp[1]), int(mp[3])
        pos, cells = structured_quads(n, m)
        dim = 2
    elif mp == "irregular":
        pos, cells = irregular_quads()
        dim = 2
    elif mp == "L2d":
        pos, cells = ell_quads()
        dim = 2
    elif mp == "L3d":
        pos, cells = ell_hexes()
        dim = 3
    elif mp.startswith("v"):
        pos, cells = star_quads(int(mp[1]))
        dim = 2
    elif mp.startswith("w"):
        pos, cells = star_hexes(int(mp[1]))
        dim = 3
    elif mp.startswith("h") and mp != "halfdisk":
        nx, ny, nz = int(mp[1]), int(mp[3]), int(mp[5])
        pos, cells = hex_assembly(nx, ny, nz)
        dim = 3
    else:
        cls = {"onecore": cb.OneCoreDisk, "fourcore": cb.FourCoreDisk, "halfdisk": cb.HalfDisk}.get(mp)
        if cls is not None:
            sk = cls([0, 0, 0], [1, 0, 0], [0, 0, 1])
        else:
            sk = cb.Oval([0, 0, 0], [0, 1.0, 0], [0, 0, 1], 0.5)
        pos, cells = np.array(sk.positions, float), [list(q) for q in sk.indexes]
        dim = 2
    boundary, neigh = adjacency(cells, dim)
    interior = sorted(set(range(len(pos))) - boundary)
    lvl = [0.0, 0.08, 0.2][case["jitter"]]
    pos = pos.copy()
    for i in interior:
        v = jitter_vec(i)
        if dim == 2:
            v = np.array([v[0], v[1], 0.0])
        pos[i] += lvl * v
    pos = frame_apply(FRAMES[fr], pos)
    if case.get("size"):
        pos = np.asarray(pos) * case["size"]
    return pos, cells, dim, boundary, neigh, interior


VIA = [None]  # how 2-D sketches are put together in the current case (None: one MappedSketch call)


def make_smoother(pos, cells, dim):
    import classy_blocks as cb

    if dim == 2:
        if VIA[0]:
            # one single-face sketch per quad, merged into the first: all at once (a list) or one after the other
            parts = [cb.MappedSketch(np.asarray(pos)[list(q)], [[0, 1, 2, 3]]) for q in cells]
            sk = parts[0]
            if VIA[0] == "merge_list":
                sk.merge(parts[1:])
            elif VIA[0] == "merge_pairs":
                # a list of two at a time
                for k in range(1, len(parts), 2):
                    sk.merge(parts[k : k + 2])
            else:
                for other in parts[1:]:
                    sk.merge(other)
        else:
            sk = cb.MappedSketch(pos, cells)
        return cb.SketchSmoother(sk), sk
    mesh = cb.Mesh()
    for c in cells:
        mesh.add(cb.Loft(cb.Face(pos[c[:4]]), cb.Face(pos[c[4:]])))
    mesh.assemble()
    return cb.MeshSmoother(mesh), mesh


def current_positions(obj, dim, ref_pos):
    """positions indexed like ref_pos (mesh vertices are matched by their initial order of creation)"""
    if dim == 2:
        return np.array(obj.positions)
    return np.array([v.position for v in obj.vertices])


def run_case(case):
    pos, cells, dim, boundary, neigh, interior = build(case)
    violations = []
    execs = 0
    size = case.get("size", 1.0)

    def bad(clause, detail, **kw):
        violations.append({"clause": clause, "coords": dict(case, **kw), "detail": detail})

    # mesh vertex numbering: vertices are created in order of first appearance in the operations
    if dim == 3:
        order = []
        for c in cells:
            for i in c:
                if i not in order:
                    order.append(i)
        inv = {i: k for k, i in enumerate(order)}  # model index -> mesh vertex index
    else:
        inv = {i: i for i in range(len(pos))}
    VIA[0] = case.get("via")
    if VIA[0]:
        _, sk0 = make_smoother(pos, cells, dim)
        sp = np.array(sk0.positions, float)
        ok = len(sp) == len(pos) and len(sk0.faces) == len(cells)
        if ok:
            inv = {i: int(np.argmin(np.linalg.norm(sp - pos[i], axis=1))) for i in range(len(pos))}
            ok = len(set(inv.values())) == len(pos) and all(np.linalg.norm(sp[inv[i]] - pos[i]) == 0 for i in inv)
        if ok:
            ok = all([inv[i] for i in q] == [int(j) for j in sk0.indexes[fi]] and np.array_equal(sk0.faces[fi].point_array, np.asarray(pos)[list(q)]) for fi, q in enumerate(cells))
        if not ok:
            bad("merged-sketch-map-differs-from-its-faces", f"{len(sp)} points / {len(sk0.faces)} faces after merging {len(cells)} single-face sketches over {len(pos)} distinct points, or indexes that do not address the faces' points")
            return {"violations": violations, "outcome": f"{case['map']}:merge-broken", "execs": 1, "nontrivial_n": 1, "states": 1, "transitions": 1}
    subsets = [()]
    for k in (1, 2, len(interior) - 1, len(interior)):
        if 0 < k <= len(interior):
            subsets += list(itertools.combinations(interior, k))[:5]
    subsets = list(dict.fromkeys(subsets))[:16]
    for fixed in subsets:
        for by in ("index", "position", "index+index", "position+index", "index+position"):
            for iters in (1, 2, 5, 50, 200):
                if by != "index" and iters not in (1, 200):
                    continue
                if "+" in by and len(fixed) < 2:
                    continue
                execs += 1
                sm, obj = make_smoother(pos, cells, dim)
                if by == "index":
                    sm.fix_indexes([inv[i] for i in fixed])
                elif by == "position":
                    sm.fix_points([pos[i] for i in fixed])
                else:
                    # the same set given in two calls, mixed kinds
                    half = len(fixed) // 2
                    first, second = fixed[:half], fixed[half:]
                    if by == "index+index":
                        sm.fix_indexes([inv[i] for i in first])
                        sm.fix_indexes([inv[i] for i in second])
                    elif by == "position+index":
                        sm.fix_points([pos[i] for i in first])
                        sm.fix_indexes([inv[i] for i in second])
                    else:
                        sm.fix_indexes([inv[i] for i in first])
                        sm.fix_points([pos[i] for i in second])
                try:
                    sm.smooth(iters)
                except Exception as err:
                    bad("smooth-raised", f"{type(err).__name__}: {err}", fixed=list(fixed), by=by, iterations=iters)
                    continue
                new = current_positions(obj, dim, pos)
                newm = np.array([new[inv[i]] for i in range(len(pos))])
                coords = {"fixed": list(fixed), "by": by, "iterations": iters}
                for i in range(len(pos)):
                    if (i in boundary or i in fixed) and not np.array_equal(newm[i], pos[i]):
                        bad("boundary-or-fixed-point-moved", f"point {i} ({'boundary' if i in boundary else 'fixed'}) moved by {np.linalg.norm(newm[i] - pos[i]):.3g}", **coords)
                        break
                free = [i for i in interior if i not in fixed]
                if len(free) == 1 and iters == 1:
                    i = free[0]
                    want = np.mean([pos[j] for j in sorted(neigh[i])], axis=0)
                    if np.linalg.norm(newm[i] - want) > 1e-12 * (1 + np.linalg.norm(want)):
                        bad("single-free-point-not-neighbour-average", f"point {i}: {newm[i].round(6).tolist()}, average of its {len(neigh[i])} edge-connected neighbours {want.round(6).tolist()}", **coords)
                if iters == 200:
                    for i in free:
                        want = np.mean([newm[j] for j in sorted(neigh[i])], axis=0)
                        if np.linalg.norm(newm[i] - want) > 1e-6 * size:
                            bad("not-converged-to-neighbour-average", f"point {i} is {np.linalg.norm(newm[i] - want):.3g} away from the average of its neighbours", **coords)
                            break
                    if case["map"].startswith("s") or case["map"].startswith("h") and case["map"] != "halfdisk":
                        if not fixed:
                            # regular boundary -> regular lattice: compare with the un-jittered positions
                            pos0, _, _, _, _, _ = build(dict(case, jitter=0))
                            if np.max(np.linalg.norm(newm - pos0, axis=1)) > 1e-6 * size:
                                bad("regular-boundary-not-regular-lattice", f"max deviation {np.max(np.linalg.norm(newm - pos0, axis=1)):.3g}", **coords)
                # copy-back consistency
                if dim == 2:
                    for fi, q in enumerate(cells):
                        fp = obj.faces[fi].point_array
                        if np.max(np.linalg.norm(fp - newm[q], axis=1)) > 0:
                            bad("faces-disagree-on-shared-point", f"face {fi}", **coords)
                            break
                else:
                    gp = sm.grid.points
                    if np.max(np.linalg.norm(gp - new, axis=1)) > 0:
                        bad("mesh-vertices-differ-from-grid", "", **coords)
    # a smoother that outlives a change of its sketch / mesh: boundary points stay where they are WHEN smoothing runs
    for change in ("translate-all", "move-one-boundary-point"):
        execs += 1
        sm, obj = make_smoother(pos, cells, dim)
        sm.smooth(2)
        bidx = sorted(boundary)[0]
        try:
            if dim == 2:
                if change == "translate-all":
                    obj.translate([10.0, -3.0, 0.5])
                else:
                    for fi, q in enumerate(cells):
                        for ci, pi in enumerate(q):
                            if pi == bidx:
                                obj.faces[fi].points[ci].translate([0.3, 0.2, 0.0])
                now = np.array(obj.positions)
            else:
                for v in obj.vertices:
                    if change == "translate-all" or v.index == inv[bidx]:
                        v.translate([10.0, -3.0, 0.5] if change == "translate-all" else [0.3, 0.2, 0.1])
                now = np.array([v.position for v in obj.vertices])
            if interior:
                # ... and a point fixed by the position it has NOW stays there
                sm.fix_points([now[inv[interior[0]]].copy()])
            sm.smooth(3)
        except Exception as err:
            bad("smooth-raised", f"{type(err).__name__}: {err}", change=change)
            continue
        after = current_positions(obj, dim, pos)
        if interior and not np.array_equal(after[inv[interior[0]]], now[inv[interior[0]]]):
            i = interior[0]
            bad("point-fixed-by-its-current-position-moved", f"after '{change}': interior point {i} was fixed by fix_points() with the position it had then and moved by {np.linalg.norm(after[inv[i]] - now[inv[i]]):.3g} in the next smooth()", change=change)
        moved = [i for i in boundary if not np.array_equal(after[inv[i]], now[inv[i]])]
        if moved:
            i = moved[0]
            bad("boundary-point-moved-back-to-snapshot", f"after '{change}' and another smooth(): boundary point {i} moved by {np.linalg.norm(after[inv[i]] - now[inv[i]]):.3g} (it was at {now[inv[i]].round(4).tolist()} when smoothing ran)", change=change)
    # ... and a change of its topology: a block deleted after the smoother was made (the mesh is assembled again without
    # it); smoothing is that of a smoother made afterwards
    if dim == 3 and len(cells) >= 3:
        for k in range(min(len(cells), 4)):
            execs += 1
            try:
                sm, obj = make_smoother(pos, cells, dim)
                obj.delete(obj.operations[k])
                sm.smooth(3)
                used = np.array([v.position for v in obj.vertices])
                sm2, obj2 = make_smoother(pos, cells, dim)
                obj2.delete(obj2.operations[k])
                type(sm2)(obj2).smooth(3)
                fresh = np.array([v.position for v in obj2.vertices])
            except Exception as err:
                bad("smooth-raised", f"{type(err).__name__}: {err}", change=f"delete-block-{k}")
                continue
            if used.shape != fresh.shape or np.max(np.linalg.norm(used - fresh, axis=1)) > 1e-12 * size:
                bad("smoother-keeps-the-topology-it-was-made-with", f"block {k} deleted after the smoother was made: smooth(3) differs from that of a smoother made after the deletion by {np.max(np.linalg.norm(used - fresh, axis=1)) if used.shape == fresh.shape else 'another number of vertices'}", change=f"delete-block-{k}")
    return {"violations": violations, "outcome": f"{case['map']}:interior={len(interior)}", "execs": execs, "nontrivial_n": execs, "states": 1, "transitions": execs}
