"""C02 - grading propagation terminates, completes and is order-independent.

Schedules (iteration orders of Axis.neighbours / Wire.coincidents) are explored by the
choice-point explorer; insertion orders and corner numberings are enumerated around
each (assembly, chop placement)."""

from __future__ import annotations

import itertools
import math

from mc import blockmesh_ref as bm
from mc import control, gradlab
from mc.domains import HEXSYM24, HEXSYM_GEN4, is_vertex_connected, lattice_cells, sub_assemblies

ID = "C02"
LEVEL = "model_checking"
DESIGN_REF = "DESIGN.md 5 C02"
RULE = (
    "case = (sub-assembly of lattice cells, chop placement derived from the edge-family model with <=d placement "
    "deviations, variant set: all insertion orders | all 24 numberings of one block); every script variant is run "
    "under the choice-point explorer over all iteration orders of Axis.neighbours/Wire.coincidents (exhaustive below "
    "the per-script cap, else deviation-bounded); a refused write() is repeated once on the same mesh and must end "
    "the same way. non-trivial = at least 2 blocks in contact and >1 schedule or >1 variant"
    " Deviation two_equal_sections: the family's chop as two sections with identical arguments."
)
ASSUMPTIONS = [
    "any permutation of an identity-hashed set of <=6 elements is realisable by some address assignment",
    "unit-cube lattice cells (topology, not geometry, drives propagation)",
    "files compared as parsed content with relative tolerance 1e-9 (1/(1/x) round-off is not a different file)",
]

COUNTS = [2, 3, 4, 5, 6, 7, 8, 9, 10]
# cell size of the chop along a curved edge: 7 cells on the chord (1 / 0.145 = 6.9), 8 on the mean of three straight edges
# and the arc (1.066 / 0.145 = 7.4)
ARC_SIZE = 0.145


def worker_init():
    control.install_choice_sets()
    control.install_progress_monitor()


# ----------------------------------------------------------------------------
def default_placement(cells):
    """one chop per family on its lowest member; family k gets count COUNTS[k % 9] and,
    for every second family, a cell-to-cell expansion so that orientation matters"""
    script = {"cells": cells, "numbering": [0] * len(cells), "chops": [], "order": list(range(len(cells)))}
    fam = gradlab.Families(script)
    classes = fam.classes()
    placement = []
    for k, root in enumerate(sorted(classes)):
        placement.append({"root": list(root), "members": [list(m) for m in classes[root]], "chops": [[list(classes[root][0]), _kw(k)]]})
    return placement


def _kw(k, variant=0):
    kw = {"count": COUNTS[k % len(COUNTS)]}
    if k % 2 == 1:
        kw["c2c_expansion"] = 1.2 if variant == 0 else 0.9
    elif variant == 1:
        kw["c2c_expansion"] = 1.1
    return kw


def placement_deviations(placement, d):
    """all placements with exactly one deviation (d=1) or two (d=2) from the default"""
    singles = []
    for fi, fam in enumerate(placement):
        members = fam["members"]
        base = fam["chops"][0]
        for m in members[1:]:
            singles.append((fi, "move", [[m, base[1]]]))
        singles.append((fi, "remove", []))
        # the family's chop given as two sections with identical arguments (twice its count)
        half = dict(base[1], length_ratio=0.5)
        singles.append((fi, "two_equal_sections", [[base[0], dict(half)], [base[0], dict(half)]]))
        for m in members[1:]:
            singles.append((fi, "add_same", [base, [m, base[1]]]))
            singles.append((fi, "add_other_expansion", [base, [m, _kw(fi, 1)]]))
    if d == 1:
        combos = [(s,) for s in singles]
    else:
        combos = [c for c in itertools.combinations(singles, 2) if c[0][0] != c[1][0]]
    for combo in combos:
        pl = [dict(f) for f in placement]
        tag = []
        for fi, what, chops in combo:
            pl[fi] = dict(pl[fi], chops=chops)
            tag.append(f"{what}@{fi}")
        yield "+".join(tag), pl


def placement_to_chops(placement):
    chops = []
    for fam in placement:
        for (blk, g), kw in fam["chops"]:
            chops.append([blk, g, kw])
    return chops


# chains in which a count has to travel three hops, a 4-fold shared edge, the livelock shape
FOUR_CELL_SPECIALS = [
    [(0, 0, 0), (0, 2, 0), (0, 1, 0), (0, 1, 1)],
    [(0, 0, 0), (1, 0, 0), (0, 1, 0), (1, 1, 0)],
    [(0, 0, 0), (1, 0, 0), (2, 0, 0), (2, 1, 0)],
    [(0, 0, 0), (1, 0, 0), (2, 0, 0), (3, 0, 0)],
    [(0, 0, 0), (1, 0, 0), (1, 1, 0), (2, 1, 0)],
    [(0, 0, 0), (1, 0, 0), (1, 1, 0), (1, 1, 1)],
    [(0, 0, 0), (1, 0, 0), (2, 0, 0), (1, 1, 0)],
]


def assemblies(tier):
    out = []
    if tier == "quick":
        for sub in sub_assemblies(lattice_cells(2, 2, 2), 3, 1):
            out.append(sub)
        # 4-cell specials: row of three plus one on top of the middle (livelock shape), 2x2 square, L, T
        out += FOUR_CELL_SPECIALS
    else:
        for sub in sub_assemblies(lattice_cells(2, 3, 2), 4, 1):
            out.append(sub)
        out += [s for s in FOUR_CELL_SPECIALS if s not in out]
        out.append([(0, 0, 0), (1, 0, 0), (2, 0, 0), (3, 0, 0), (4, 0, 0)])
    return [[list(c) for c in a] for a in out]


def cases(tier, seed):
    out = []
    for cells in assemblies(tier):
        n = len(cells)
        cells_t = [tuple(c) for c in cells]
        base = default_placement(cells_t)
        placements = [("default", base)]
        connected = is_vertex_connected(cells_t)
        if 2 <= n <= 4:
            placements += list(placement_deviations(base, 1))
            if tier == "thorough" and n <= 3:
                placements += list(placement_deviations(base, 2))
        for tag, pl in placements:
            chops = placement_to_chops(pl)
            out.append({"cells": cells, "placement": tag, "chops": chops, "variants": "orders"})
            if n >= 2 and (tag == "default" or tag.startswith("move") or tier == "thorough") and connected:
                for b in range(n):
                    out.append({"cells": cells, "placement": tag, "chops": chops, "variants": f"numbering:{b}"})
    # a curved shared edge that only ONE of the blocks declares, and a chop by cell size along it: the count comes from the
    # mean length of the block's four edges, which must not depend on who was added first or how a block is numbered
    for cells, dirs in (([[0, 0, 0], [1, 0, 0]], (1, 2)), ([[0, 0, 0], [1, 0, 0], [1, 1, 0]], (2,))):
        cells_t = [tuple(c) for c in cells]
        base = default_placement(cells_t)
        for g in dirs:
            for who in ("first", "last"):
                p1 = [max(a, b) for a, b in zip(cells[0], cells[1])]
                p2 = list(p1)
                p2[g] += 1
                off = [0.0, 0.0, 0.0]
                off[(g + 1) % 3] = 0.3
                off[(g + 2) % 3] = 0.1
                geometry = {"arcs": [[p1, p2, off, who]]}
                chops = []
                for fam in base:
                    (m, kw) = fam["chops"][0]
                    if [0, g] in fam["members"]:
                        chops.append([0, g, {"start_size": ARC_SIZE}])
                    else:
                        chops.append([m[0], m[1], kw])
                tag = f"arc_{who}_dir{g}"
                out.append({"cells": cells, "placement": tag, "chops": chops, "variants": "orders", "geometry": geometry})
                for b in range(len(cells)):
                    out.append({"cells": cells, "placement": tag, "chops": chops, "variants": f"numbering:{b}", "geometry": geometry})
    # simplest first
    out.sort(key=lambda c: (len(c["cells"]), c["placement"] != "default"))
    for c in out:
        c["cap"] = SCHED_CAP[tier]
    return out


def bounds(tier):
    return {
        "schedule_cap_per_script": SCHED_CAP[tier],
        "lattice": "2x2x2 (<=3 cells) + 3 four-cell specials" if tier == "quick" else "2x3x2 (<=4 cells)",
        "placement_deviations": 1 if tier == "quick" else 2,
    }


SCHED_CAP = {"quick": 150, "thorough": 3000}


# ----------------------------------------------------------------------------
def canonical_content(text):
    """renumbering-invariant content of a written file: per (cell, lattice edge): count and
    cell-size sequence in the canonical direction"""
    d = gradlab.parse_ok(text)
    pos = [tuple(int(round(x)) for x in v["pos"]) for v in d["vertices"]]
    out = []
    for blk in d["blocks"]:
        ids = [pos[i] for i in blk["v"]]
        cell = tuple(min(p[i] for p in ids) for i in range(3))
        for k, (c1, c2) in enumerate(bm.EDGES):
            a = k // 4
            item = blk["grading"][a] if blk["kind"] == "simpleGrading" else blk["grading"][k]
            sizes = bm.edge_sizes(1.0, blk["counts"][a], item)
            p1, p2 = ids[c1], ids[c2]
            if p1 > p2:
                p1, p2 = p2, p1
                sizes = sizes[::-1]
            out.append((cell, p1, p2, blk["counts"][a], sizes))
    out.sort(key=lambda t: t[:3])
    return out


def same_content(a, b, rel=1e-9):
    if len(a) != len(b):
        return False
    for x, y in zip(a, b):
        if x[:4] != y[:4] or len(x[4]) != len(y[4]):
            return False
        for s, t in zip(x[4], y[4]):
            if not math.isclose(s, t, rel_tol=rel, abs_tol=1e-12):
                return False
    return True


def run_script(script, cap, reps):
    """explore all schedules of one script; returns (result dict, list of outcome ids)"""

    def run(ch):
        mesh, _ = gradlab.build_mesh(script)
        kind, payload = gradlab.write_and_observe(mesh)
        if kind != "ok":
            if kind.startswith("livelock"):
                return f"{kind}:{payload}"
            # "repeated runs end the same way": the refused write() is repeated on the same mesh (default schedule)
            control.set_chooser(None)
            kind2, payload2 = gradlab.write_and_observe(mesh)
            return f"{kind}:{payload}>retry:{kind2}:{payload2 if kind2 != 'ok' else 'written'}"
        content = canonical_content(payload)
        for i, r in enumerate(reps):
            if same_content(r, content):
                return f"ok:{i}"
        reps.append(content)
        return f"ok:{len(reps) - 1}"

    return control.explore_schedules(run, cap)


def variants_of(case):
    n = len(case["cells"])
    if case["variants"] == "orders":
        for order in itertools.permutations(range(n)):
            yield {"order": list(order), "numbering": [0] * n}
    else:
        b = int(case["variants"].split(":")[1])
        for k in range(24):
            num = [0] * n
            num[b] = k
            yield {"order": list(range(n)), "numbering": num}


def run_case(case):
    cap = case.get("cap", SCHED_CAP["quick"])
    cells = [tuple(c) for c in case["cells"]]
    violations = []
    reps = []  # distinct successful contents over all variants and schedules
    execs = transitions = 0
    all_outcomes = {}
    exhaustive = True
    min_bound = None
    verdict = None
    for var in variants_of(case):
        script = {"cells": cells, "chops": case["chops"], **var}
        if case.get("geometry"):
            script["geometry"] = case["geometry"]
        verdict, fam_counts, fam = gradlab.expected(script)
        res = run_script(script, cap, reps)
        execs += res["execs"]
        transitions += res["transitions"]
        exhaustive = exhaustive and res["exhaustive"]
        min_bound = res["completed_bound"] if min_bound is None else min(min_bound, res["completed_bound"])
        coords = {"cells": case["cells"], "placement": case["placement"], "order": var["order"], "numbering": var["numbering"]}
        for o, sched in res["outcomes"].items():
            all_outcomes.setdefault(o, (var, sched))
            c2 = dict(coords, schedule=sched)
            if o.startswith("livelock"):
                violations.append({"clause": "a-termination", "coords": c2, "detail": "propagation loop exceeded the progress horizon (livelock)"})
            if "+partial" in o:
                violations.append({"clause": "b-partial-file", "coords": c2, "detail": "output path was modified although writing failed"})
            if verdict == "ok" and not o.startswith("ok"):
                if not o.startswith("livelock"):
                    violations.append({"clause": "b-complete-but-failed", "coords": c2, "detail": f"every family has a chop but writing ended with {o}"})
            if verdict == "undefined" and not o.startswith("error:UndefinedGradingsError"):
                if not o.startswith("livelock"):
                    violations.append({"clause": "b-undefined-not-reported", "coords": c2, "detail": f"a family has no chop but writing ended with {o}"})
            if ">retry:" in o and o.split(">retry:")[0] != o.split(">retry:")[1]:
                violations.append({"clause": "e-retry-ends-differently", "coords": c2, "detail": f"write() ended with {o.split('>retry:')[0]}, the same call repeated on the same mesh with {o.split('>retry:')[1]}"})
            if verdict == "ok" and o.startswith("ok") and not case.get("geometry"):
                content = reps[int(o.split(":")[1])]
                bad = check_counts(content, script, fam_counts, fam)
                if bad:
                    violations.append({"clause": "b-family-count", "coords": c2, "detail": bad})
        if len(res["outcomes"]) > 1:
            violations.append(
                {
                    "clause": "c-schedule-dependent-outcome",
                    "coords": coords,
                    "detail": {k: v for k, v in list(res["outcomes"].items())[:4]},
                }
            )
    ok_outcomes = [o for o in all_outcomes if o.startswith("ok")]
    if verdict == "ok" and len(ok_outcomes) > 1 and single_chop_families(case):
        violations.append(
            {
                "clause": "d-order-dependent-content",
                "coords": {"cells": case["cells"], "placement": case["placement"], "variants": case["variants"]},
                "detail": {o: all_outcomes[o] for o in ok_outcomes[:3]},
            }
        )
    kinds = sorted({o.split(":")[0] + (":" + o.split(">")[0].split(":")[1] if not o.startswith("ok") else "") for o in all_outcomes})
    return {
        "violations": violations,
        "outcome": f"{verdict}|" + ",".join(kinds),
        "nontrivial": len(cells) >= 2 and execs > 1,
        "execs": execs,
        "states": execs,
        "transitions": transitions + execs,
        "exhaustive": exhaustive,
        "counters": {"schedules_exhaustive_scripts": int(exhaustive), "min_completed_deviation_bound": min_bound or 0},
    }


def single_chop_families(case):
    """(d) compares cell-size sequences only when no family carries two chops (else 'the' chop is ambiguous)"""
    return "add_" not in case["placement"]


def check_counts(content, script, fam_counts, fam):
    cells = [tuple(c) for c in script["cells"]]
    for cell, p1, p2, count, _ in content:
        b = cells.index(cell)
        g = [i for i in range(3) if p1[i] != p2[i]][0]
        want = fam_counts[fam.find((b, g))]
        if count != want:
            return f"block at cell {cell}, direction {g}: written count {count}, family count {want}"
    return None


def render_replay(case, v):
    co = v["coords"]
    if "order" not in co:
        return None
    script = {"cells": case["cells"], "chops": case["chops"], "order": co["order"], "numbering": co["numbering"]}
    return f'''# stand-alone reproduction of {ID} clause {v["clause"]} (needs /verif on sys.path for the schedule seam)
import sys; sys.path.insert(0, "/verif")
from mc import control, gradlab
from mc.props import c02
c02.worker_init()
script = {script!r}
script["cells"] = [tuple(c) for c in script["cells"]]
ch = control.Chooser({co.get("schedule", [])!r}); control.set_chooser(ch)
mesh, _ = gradlab.build_mesh(script)
print(gradlab.write_and_observe(mesh)[0])
'''
